#!/usr/bin/env python3
# Regenerates MANIFEST.json from properties.map.json (claimed checks), na_reasons.json
# (explicit not-applicable reasons) and properties.jsonl (everything else: not yet
# under contract => listed as not_applicable with that reason).
import json, subprocess
props=[json.loads(l) for l in open('/verif/properties.jsonl')]
pm=json.load(open('/verif/properties.map.json'))
na=json.load(open('/verif/na_reasons.json'))
hooks=subprocess.run(['git','-C','/repo','log','--format=%H %s','--grep=^verif:'],capture_output=True,text=True).stdout.strip().splitlines()
checks=[]
for p in props:
    i=p['id']
    if i not in pm: continue
    m=pm[i]
    checks.append({
      "property_id": i,
      "quick_cmd": f"./check {i}",
      "thorough_cmd": f"./check {i} --tier thorough",
      "evidence_file": f"/verif/evidence/{i}.json",
      "replay_cmd_template": f"./check {i} --replay {{path}}",
      "engine": "govc",
      "level_claimed": {"category":"proof","text": "Every obligation generated from the contracts of the functions this property depends on (pre/postconditions, loop invariants, absence of panics / out-of-range / nil dereference, frame conditions) is discharged by an SMT solver for all inputs and all iterations, from go/ssa of /repo's current tree. Decides: "+m.get('decides',''), "design_ref":"DESIGN.md section 4 "+i},
      "level_note": "Not covered: "+m.get('not_covered','')+" | Trusted: go/ssa, the govc translation, the SMT solvers, trusted external contracts and intrinsics listed in the evidence file.",
      "technique": "contract-based deductive verification: weakest-precondition style VC generation over go/ssa with contracts in //@ comment files, discharged by z3/cvc5"
    })
nas=[]
for p in props:
    i=p['id']
    if i in pm: continue
    nas.append({"property_id": i, "reason": na.get(i, "not claimed yet: the functions this property depends on are not under machine-checked contract in this version (see DESIGN.md section 4 for the planned reduction)")})
man={
 "version":1,
 "setup_cmd":"./setup.sh",
 "hooks":{"guard":"verif","enable":"contract files /repo/**/zz_verif_contracts*.go carry //go:build verif and contain only comments; govc reads them with go/parser, no tag is passed to the compiler","baseline_off_cmd":"cd /repo && . /verif/env.sh && go test -vet=off -count=1 ./...","source_commits":[h.split()[0] for h in hooks],"add_only":True},
 "engines":[{"name":"govc","path":"/verif/govc","serves_properties":sorted(pm.keys()),"kind_free_text":"deductive verifier for Go written for this task: go/packages+go/ssa (naive form) -> symbolic execution with loop cutting at invariants and state merging -> SMT-LIB obligations -> z3 5.1.0 / z3 4.8.12 / cvc5 1.0.3"}],
 "checks":checks,
 "not_applicable":nas,
 "notes":"Contracts live as //@ comments in verif-tagged, comment-only files inside /repo; baselines of obligation ids in /verif/baseline; known findings in /verif/known_findings.json."
}
json.dump(man,open('/verif/MANIFEST.json','w'),indent=1)
print(len(checks),'checks',len(nas),'not applicable')
# every claimed property must have its evidence file tracked in git
import subprocess
tracked=set(subprocess.run(['git','-C','/verif','ls-files','evidence'],capture_output=True,text=True).stdout.split())
missing=[c['property_id'] for c in checks if f"evidence/{c['property_id']}.json" not in tracked]
if missing: print('WARNING: evidence not committed for', ' '.join(missing), '- run ./check <id> and git add evidence/')
