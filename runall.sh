#!/bin/bash
# runall.sh [-j N] [ids...]: run the quick check of every claimed property (or the given ones), N at a time; summary on stdout
cd "$(dirname "$0")"
J=4; if [ "$1" = "-j" ]; then J=$2; shift 2; fi
ids="$@"; [ -z "$ids" ] && ids=$(python3 -c "import json;print(' '.join(sorted(json.load(open('properties.map.json')))))")
mkdir -p /tmp/runall; rm -f /tmp/runall/*.out
printf '%s\n' $ids | xargs -P $J -I{} sh -c './check {} > /tmp/runall/{}.out 2>&1; echo "{} rc=$? $(tail -1 /tmp/runall/{}.out | cut -c1-150)"'
