package main

import (
	"fmt"
	"go/token"
	"go/types"
	"math/big"
	"sort"
	"strings"

	"golang.org/x/tools/go/ssa"
)

type bigInt = big.Int

var one = big.NewInt(1)

const maxIntS = "9223372036854775807"

var stdSizes = types.SizesFor("gc", "amd64")

// ---------------------------------------------------------------------
// Verification-condition context: an ordered list of declarations and
// (already guarded) assumptions; an obligation refers to a prefix of it.

type Obl struct {
	ID     string
	Kind   string // ensures requires inv-entry inv-pres bounds nil div0 overflow panic frame decreases crash lemma assert conv
	Func   string
	Text   string
	Tags   []string
	Pos    token.Position
	N      int // prefix length of vc.lines
	Goal   string
	Safety bool
	Vars   []ModelVar // values to fetch for replay
	vc     *VC
	// results
	Status string // unsat sat unknown timeout error
	Solver string
	Secs   float64
	Model  map[string]string
	Output string
	Bounded int
}

type ModelVar struct {
	Name string // source-level name
	Term string
	Kind string
}

type VC struct {
	fn       string
	lines    []string
	declared map[string]bool
	obls     []*Obl
	nfresh   int
	idCount  map[string]int
	diags    []string
	recDefs  []string // define-fun-rec blocks (emitted before everything else)
	recDone  map[string]bool
	capture  *[]string
	covers   []*Obl
	replay   *ReplayInfo
	rawQueries map[*Obl]string // complete SMT texts (bit-vector lemmas)
	pcNow    string // path condition of the state being executed: side facts are guarded by it
}

func newVC(fn string) *VC {
	return &VC{fn: fn, declared: map[string]bool{}, idCount: map[string]int{}, recDone: map[string]bool{}}
}

func (vc *VC) declare(name, sort string) string {
	if !vc.declared[name] {
		vc.declared[name] = true
		vc.lines = append(vc.lines, "(declare-const "+name+" "+sort+")")
	}
	return name
}

func (vc *VC) fresh(prefix, sort string) string {
	vc.nfresh++
	name := fmt.Sprintf("%s!%d", sanitize(prefix), vc.nfresh)
	return vc.declare(name, sort)
}

// assumeGlobal: a fact about constants that is independent of the path (never
// captured by a quantifier body under construction).
func (vc *VC) assumeGlobal(t string) {
	vc.lines = append(vc.lines, "(assert "+t+")")
}

func (vc *VC) assume(t string) {
	if t == "true" || t == "" {
		return
	}
	if vc.capture != nil {
		*vc.capture = append(*vc.capture, t)
		return
	}
	// A side fact (type range of a loaded value, a callee postcondition, ...) is
	// about terms that are only meaningful on the path being executed; asserting
	// it unguarded could make other paths infeasible.
	if vc.pcNow != "" && vc.pcNow != "true" && !strings.HasPrefix(t, "(=> "+vc.pcNow+" ") {
		t = "(=> " + vc.pcNow + " " + t + ")"
	}
	vc.lines = append(vc.lines, "(assert "+t+")")
}

// def introduces a named abbreviation when the term is big.
func (vc *VC) def(prefix, sort, term string) string {
	if len(term) < 48 || vc.capture != nil {
		return term
	}
	c := vc.fresh(prefix, sort)
	vc.lines = append(vc.lines, "(assert (= "+c+" "+term+"))")
	return c
}

func sanitize(s string) string {
	var b strings.Builder
	for _, c := range s {
		if c == '_' || c == '.' || (c >= '0' && c <= '9') || (c >= 'a' && c <= 'z') || (c >= 'A' && c <= 'Z') {
			b.WriteRune(c)
		} else {
			b.WriteByte('_')
		}
	}
	if b.Len() == 0 {
		return "v"
	}
	return b.String()
}

func (vc *VC) diag(format string, a ...any) {
	vc.diags = append(vc.diags, fmt.Sprintf(format, a...))
}

// ---------------------------------------------------------------------

type Cell struct {
	id     int
	name   string
	ty     types.Type
	pos    token.Pos
	global *ssa.Global
	ghost  bool
	lazy   bool // created on first use (captured variable of a closure verified on its own): unknown where absent
}

type State struct {
	pc       string
	cells    map[*Cell]*Val
	heaps    map[string]string
	epoch    int
	allocTop string
	events   string // ghost event counter term (number of effectful calls so far)
}

func (s *State) clone() *State {
	n := &State{pc: s.pc, epoch: s.epoch, allocTop: s.allocTop, events: s.events,
		cells: make(map[*Cell]*Val, len(s.cells)), heaps: make(map[string]string, len(s.heaps))}
	for k, v := range s.cells {
		n.cells[k] = v
	}
	for k, v := range s.heaps {
		n.heaps[k] = v
	}
	return n
}

// Heap versions. A state carries explicit terms for the heaps it has written
// (st.heaps) and an epoch that says how every other heap relates to the
// function-entry heap: epochs form a tree of "havoc these names" and "merge of
// these predecessor epochs" nodes, resolved lazily per heap name.
type epochInfo struct {
	kind   int // 0 root, 1 havoc, 2 merge, 3 havoc of one row
	row    string
	top    string
	parent int
	pats   []string
	pcs    []string
	eps    []int
	cache  map[string]string
}

func (x *Exec) newEpoch(info *epochInfo) int {
	info.cache = map[string]string{}
	x.epochTab = append(x.epochTab, info)
	return len(x.epochTab) - 1
}

func (x *Exec) heapAtEpoch(e int, name, sort string) string {
	info := x.epochTab[e]
	if t, ok := info.cache[name]; ok {
		return t
	}
	var t string
	switch info.kind {
	case 0:
		t = x.vc.declare(fmt.Sprintf("%s@%d", name, e), sort)
	case 1:
		hit := false
		for _, p := range info.pats {
			if heapMatches(name, p) {
				hit = true
			}
		}
		if hit {
			t = x.vc.declare(fmt.Sprintf("%s@%d", name, e), sort)
		} else {
			t = x.heapAtEpoch(info.parent, name, sort)
		}
	case 3:
		hit := false
		for _, p := range info.pats {
			if heapMatches(name, p) {
				hit = true
			}
		}
		pt := x.heapAtEpoch(info.parent, name, sort)
		if hit {
			t = x.rowHavoc(name, sort, pt, info.row, info.top)
		} else {
			t = pt
		}
	case 2:
		ts := make([]string, len(info.eps))
		same := true
		for i, pe := range info.eps {
			ts[i] = x.heapAtEpoch(pe, name, sort)
			if ts[i] != ts[0] {
				same = false
			}
		}
		if same {
			t = ts[0]
		} else {
			t = ts[len(ts)-1]
			for i := len(ts) - 2; i >= 0; i-- {
				t = tIte(info.pcs[i], ts[i], t)
			}
			t = x.vc.def(name, sort, t)
		}
	}
	info.cache[name] = t
	return t
}

func (x *Exec) heap(st *State, name, sort string) string {
	if t, ok := st.heaps[name]; ok {
		return t
	}
	x.heapSorts[name] = sort
	return x.heapAtEpoch(st.epoch, name, sort)
}

func (x *Exec) havocAllHeaps(st *State) {
	x.havocHeapsMatching(st, []string{"*"})
}

// havocHeapsMatching forgets everything about the heaps whose name matches one
// of the patterns (a pattern matches itself and every name it prefixes at a
// "_" boundary; "*" matches all).
func (x *Exec) havocHeapsMatching(st *State, pats []string) {
	if len(pats) == 0 {
		return
	}
	st.epoch = x.newEpoch(&epochInfo{kind: 1, parent: st.epoch, pats: pats})
	for n := range st.heaps {
		for _, p := range pats {
			if heapMatches(n, p) {
				delete(st.heaps, n)
				break
			}
		}
	}
}

// heapAxiom: every value stored in a heap array of an integer-like leaf lies in
// the range of its Go type (a type invariant of memory). Stated once per heap
// version as a quantified fact so that it is available for every index, also
// under binders.
func (x *Exec) heapAxiom(constName, heapName, sort string) {
	if len(heapName) < 3 || (heapName[:2] != "A_" && heapName[:2] != "H_") {
		return
	}
	rest := heapName[2:]
	var bestKey string
	for k := range typeKeyReg {
		if strings.HasPrefix(rest, k+"_") && len(k) > len(bestKey) {
			bestKey = k
		}
	}
	if bestKey == "" {
		return
	}
	t := typeKeyReg[bestKey]
	leaf := rest[len(bestKey)+1:]
	names := leafNames(t)
	rs := leafRanges(t)
	j := -1
	for i, n := range names {
		if n == leaf {
			j = i
		}
	}
	if j < 0 || j >= len(rs) || (rs[j].lo == "" && rs[j].hi == "") {
		return
	}
	depth := strings.Count(sort, "(Array Int")
	want := 1 + rs[j].extra
	if heapName[:2] == "A_" {
		want = 2 + rs[j].extra
	}
	if depth != want {
		return
	}
	x.vc.nfresh++
	term := constName
	var binders []string
	for d := 0; d < depth; d++ {
		v := fmt.Sprintf("h!%d_%d", x.vc.nfresh, d)
		binders = append(binders, "("+v+" Int)")
		term = tSel(term, v)
	}
	var cs []string
	if rs[j].lo != "" {
		cs = append(cs, tCmp("<=", rs[j].lo, term))
	}
	if rs[j].hi != "" {
		cs = append(cs, tCmp("<=", term, rs[j].hi))
	}
	x.vc.assumeGlobal("(forall (" + strings.Join(binders, " ") + ") (! " + tAnd(cs...) + " :pattern (" + term + ")))")
}

// rowHavoc: a heap equal to `from` everywhere except at reference `row` and at
// references allocated after `top`.
func (x *Exec) rowHavoc(name, sort, from, row, top string) string {
	t := x.vc.fresh(name, sort)
	x.vc.nfresh++
	r := fmt.Sprintf("r!%d", x.vc.nfresh)
	x.vc.assumeGlobal("(forall ((" + r + " Int)) (! (=> (and (not (= " + r + " " + row + ")) (<= " + r + " " + top + ")) (= (select " + t + " " + r + ") (select " + from + " " + r + "))) :pattern ((select " + t + " " + r + "))))")
	return t
}

// havocRow forgets row `row` (and whatever the callee allocated) of the heaps
// matching the patterns.
func (x *Exec) havocRow(st *State, pats []string, row, top string) {
	for n, cur := range st.heaps {
		for _, p := range pats {
			if heapMatches(n, p) {
				st.heaps[n] = x.rowHavoc(n, x.heapSorts[n], cur, row, top)
				break
			}
		}
	}
	// heaps not written in this state resolve lazily
	explicit := map[string]string{}
	for n, t := range st.heaps {
		explicit[n] = t
	}
	st.epoch = x.newEpoch(&epochInfo{kind: 3, parent: st.epoch, pats: pats, row: row, top: top})
	_ = explicit
}

func heapMatches(name, pat string) bool {
	if pat == "*" {
		return true
	}
	return name == pat || strings.HasPrefix(name, pat+"_") || strings.HasPrefix(name, pat+".")
}

// mergeStates joins path states. The pcs are mutually exclusive.
func (x *Exec) mergeStates(sts []*State) *State {
	var live []*State
	for _, s := range sts {
		if s != nil && s.pc != "false" {
			live = append(live, s)
		}
	}
	if len(live) == 0 {
		return nil
	}
	if len(live) == 1 {
		return live[0]
	}
	vc := x.vc
	out := &State{cells: map[*Cell]*Val{}, heaps: map[string]string{}}
	pcs := make([]string, len(live))
	for i, s := range live {
		pcs[i] = s.pc
	}
	out.pc = vc.def("pc", sBool, tOr(pcs...))
	// epoch
	same := true
	for _, s := range live[1:] {
		if s.epoch != live[0].epoch {
			same = false
		}
	}
	if same {
		out.epoch = live[0].epoch
	} else {
		info := &epochInfo{kind: 2}
		for _, s := range live {
			info.pcs = append(info.pcs, s.pc)
			info.eps = append(info.eps, s.epoch)
		}
		out.epoch = x.newEpoch(info)
	}
	// heaps
	hn := map[string]bool{}
	for _, s := range live {
		for n := range s.heaps {
			hn[n] = true
		}
	}
	names := make([]string, 0, len(hn))
	for n := range hn {
		names = append(names, n)
	}
	sort.Strings(names)
	for _, n := range names {
		srt := x.heapSorts[n]
		t := x.heap(live[len(live)-1], n, srt)
		for i := len(live) - 2; i >= 0; i-- {
			t = tIte(live[i].pc, x.heap(live[i], n, srt), t)
		}
		out.heaps[n] = vc.def(n, srt, t)
	}
	// cells
	cn := map[*Cell]bool{}
	for _, s := range live {
		for c := range s.cells {
			cn[c] = true
		}
	}
	cl := make([]*Cell, 0, len(cn))
	for c := range cn {
		cl = append(cl, c)
	}
	sort.Slice(cl, func(i, j int) bool { return cl[i].id < cl[j].id })
	for _, c := range cl {
		var v *Val
		for i := len(live) - 1; i >= 0; i-- {
			cv, ok := live[i].cells[c]
			if !ok {
				if !strings.HasPrefix(c.name, "last_") && !c.lazy {
					continue
				}
				// "result of the last call to f": unknown on a path without such a call
				saved := x.vc.pcNow
				x.vc.pcNow = live[i].pc
				cv = x.freshVal(c.name, c.ty)
				x.vc.pcNow = saved
			}
			if v == nil {
				v = cv
			} else {
				v = iteVal(live[i].pc, cv, v)
			}
		}
		out.cells[c] = x.defVal(c.name, v)
	}
	// allocTop, events
	at := live[len(live)-1].allocTop
	ev := live[len(live)-1].events
	for i := len(live) - 2; i >= 0; i-- {
		at = tIte(live[i].pc, live[i].allocTop, at)
		ev = tIte(live[i].pc, live[i].events, ev)
	}
	out.allocTop = vc.def("allocTop", sInt, at)
	out.events = vc.def("events", sInt, ev)
	return out
}

func (x *Exec) defVal(name string, v *Val) *Val {
	ss := leafSortsV(v)
	out := &Val{Ty: v.Ty, L: make([]string, len(v.L)), X: v.X, Seq: v.Seq}
	changed := false
	for i, t := range v.L {
		out.L[i] = x.vc.def(name, ss[i], t)
		if out.L[i] != t {
			changed = true
		}
	}
	if !changed {
		return v
	}
	return out
}

func leafSortsV(v *Val) []string {
	if v.Seq {
		return seqSorts(sliceElem(v.Ty))
	}
	return leafSorts(v.Ty)
}

// freshVal creates an unconstrained value of type t (plus type facts).
func (x *Exec) freshVal(name string, t types.Type) *Val {
	ss := leafSorts(t)
	v := &Val{Ty: t, L: make([]string, len(ss))}
	for i, s := range ss {
		v.L[i] = x.vc.fresh(name, s)
	}
	x.typeFacts(v)
	return v
}

// typeFacts asserts the range / shape invariants every Go value of the type
// satisfies.
func (x *Exec) typeFacts(v *Val) {
	x.typeFactsAt(v.Ty, v.L)
}

func (x *Exec) typeFactsAt(t types.Type, L []string) {
	switch u := under(t).(type) {
	case *types.Basic:
		if u.Info()&types.IsInteger != 0 {
			if _, isn := isNumLit(L[0]); !isn {
				x.vc.assume(inRange(t, L[0]))
			}
		} else if u.Info()&types.IsString != 0 {
			x.vc.assume(tAnd(tCmp("<=", "0", L[1]), tCmp("<=", "0", L[2]), tCmp("<=", tAdd(L[1], L[2]), maxIntS)))
		}
	case *types.Slice:
		x.vc.assume(tAnd(tCmp("<=", "0", L[0]), tCmp("<=", "0", L[1]), tCmp("<=", "0", L[2]), tCmp("<=", L[2], L[3]),
			tCmp("<=", tAdd(L[1], L[3]), maxIntS), tImp(tEq(L[0], "0"), tEq(L[3], "0"))))
		// a backing array never exceeds the address space
		if sz := stdSizes.Sizeof(u.Elem()); sz > 1 {
			x.vc.assume(tCmp("<=", tMul(L[3], num(sz)), maxIntS))
		}
	case *types.Pointer, *types.Map, *types.Chan, *types.Signature, *types.Interface:
		x.vc.assume(tCmp("<=", "0", L[0]))
	case *types.Struct:
		off := 0
		for i := 0; i < u.NumFields(); i++ {
			n := nLeaves(u.Field(i).Type())
			x.typeFactsAt(u.Field(i).Type(), L[off:off+n])
			off += n
		}
	case *types.Tuple:
		off := 0
		for i := 0; i < u.Len(); i++ {
			n := nLeaves(u.At(i).Type())
			x.typeFactsAt(u.At(i).Type(), L[off:off+n])
			off += n
		}
	}
}

// newRef allocates a fresh reference.
func (x *Exec) newRef(st *State) string {
	r := x.vc.fresh("ref", sInt)
	x.vc.assume(tEq(r, tAdd(st.allocTop, "1")))
	st.allocTop = r
	return r
}

// bumpAllocTop: an unknown amount of allocation happened.
func (x *Exec) bumpAllocTop(st *State) {
	nt := x.vc.fresh("allocTop", sInt)
	x.vc.assume(tCmp(">=", nt, st.allocTop))
	st.allocTop = nt
}

// knownRef records that a reference value existed at this point.
func (x *Exec) knownRef(st *State, r string) {
	if _, isn := isNumLit(r); isn {
		return
	}
	x.vc.assume(tCmp("<=", r, st.allocTop))
}
