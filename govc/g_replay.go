package main

import (
	"encoding/json"
	"fmt"
	"os"
	"path/filepath"
	"strings"
)

// writeReplay records a failed obligation: its id, the solver output, the
// model (if any) and, when the function's parameters can be rebuilt from the
// model, a Go test that replays the counterexample on the real code. It
// returns the suffix of the VIOLATION line.
func writeReplay(w *World, repo, path, prop, id, reason string, o *Obl) string {
	rec := map[string]any{
		"property":   prop,
		"obligation": id,
		"status":     reason,
	}
	suffix := " no-failing-input-found"
	if o != nil {
		rec["kind"] = o.Kind
		rec["function"] = o.Func
		rec["at"] = fmt.Sprintf("%s:%d", relPath(repo, o.Pos.Filename), o.Pos.Line)
		rec["solver_output"] = o.Output
		rec["model"] = o.Model
		smtPath := strings.TrimSuffix(path, ".json") + ".smt2"
		os.WriteFile(smtPath, []byte(o.smt(true)), 0o644)
		rec["smt_file"] = smtPath
		if o.Status == "sat" {
			ok, testPath, out := tryReplay(w, repo, path, o)
			if testPath == "" && out != "" {
				rec["replay_note"] = out
			}
			if testPath != "" {
				rec["replay_test"] = testPath
				if mb, err := os.ReadFile(testPath + ".meta"); err == nil {
					var mm map[string]string
					if json.Unmarshal(mb, &mm) == nil {
						rec["replay_pkg_dir"] = mm["replay_pkg_dir"]
					}
					os.Remove(testPath + ".meta")
				}
				rec["replay_output"] = out
				rec["replay_confirms_failure"] = ok
				if ok {
					suffix = ""
				}
			}
		}
	}
	os.MkdirAll(filepath.Dir(path), 0o755)
	writeJSON(path, rec)
	return suffix
}

func runReplayFile(repo, path string) int {
	var rec map[string]any
	if err := readJSON(path, &rec); err != nil {
		fmt.Fprintln(os.Stderr, err)
		return 2
	}
	tp, _ := rec["replay_test"].(string)
	if tp == "" {
		fmt.Printf("replay %s: no executable replay recorded (obligation %v, status %v)\n", path, rec["obligation"], rec["status"])
		fmt.Println(rec["solver_output"])
		return 1
	}
	pkgDir, _ := rec["replay_pkg_dir"].(string)
	ok, out := runReplayTest(repo, pkgDir, tp)
	fmt.Println(out)
	if ok {
		fmt.Println("replay: the real code fails as predicted")
		return 1
	}
	fmt.Println("replay: the real code does not fail on this input")
	return 0
}

// tryReplay is filled in by replaygen.go
var tryReplay = func(w *World, repo, path string, o *Obl) (bool, string, string) { return false, "", "" }

var runReplayTestImpl func(repo, pkgDir, testPath string) (bool, string)

func runReplayTest(repo, pkgDir, testPath string) (bool, string) {
	if runReplayTestImpl == nil {
		return false, "replay not available"
	}
	return runReplayTestImpl(repo, pkgDir, testPath)
}
