package main

// SMT term helpers. Terms are SMT-LIB strings; light constant folding keeps
// generated VCs small.

import (
	"fmt"
	"math/big"
	"strings"
)

const (
	sInt  = "Int"
	sBool = "Bool"
	sArrI = "(Array Int Int)"
)

func arrSort(elem string) string { return "(Array Int " + elem + ")" }

func num(n int64) string {
	if n < 0 {
		return fmt.Sprintf("(- %d)", -n)
	}
	return fmt.Sprintf("%d", n)
}

func bignum(n *big.Int) string {
	if n.Sign() < 0 {
		return "(- " + new(big.Int).Neg(n).String() + ")"
	}
	return n.String()
}

func isNumLit(t string) (*big.Int, bool) {
	s := t
	neg := false
	if strings.HasPrefix(s, "(- ") && strings.HasSuffix(s, ")") {
		s = s[3 : len(s)-1]
		neg = true
	}
	if s == "" {
		return nil, false
	}
	for _, c := range s {
		if c < '0' || c > '9' {
			return nil, false
		}
	}
	n, ok := new(big.Int).SetString(s, 10)
	if !ok {
		return nil, false
	}
	if neg {
		n.Neg(n)
	}
	return n, true
}

func tAnd(ts ...string) string {
	var out []string
	for _, t := range ts {
		if t == "true" || t == "" {
			continue
		}
		if t == "false" {
			return "false"
		}
		out = append(out, t)
	}
	switch len(out) {
	case 0:
		return "true"
	case 1:
		return out[0]
	}
	return "(and " + strings.Join(out, " ") + ")"
}

func tOr(ts ...string) string {
	var out []string
	for _, t := range ts {
		if t == "false" || t == "" {
			continue
		}
		if t == "true" {
			return "true"
		}
		out = append(out, t)
	}
	switch len(out) {
	case 0:
		return "false"
	case 1:
		return out[0]
	}
	return "(or " + strings.Join(out, " ") + ")"
}

func tNot(t string) string {
	switch t {
	case "true":
		return "false"
	case "false":
		return "true"
	}
	if strings.HasPrefix(t, "(not ") && balanced(t[5:len(t)-1]) {
		return t[5 : len(t)-1]
	}
	return "(not " + t + ")"
}

func balanced(s string) bool {
	d := 0
	for _, c := range s {
		if c == '(' {
			d++
		} else if c == ')' {
			d--
			if d < 0 {
				return false
			}
		}
	}
	return d == 0
}

func tImp(a, b string) string {
	if a == "true" {
		return b
	}
	if a == "false" || b == "true" {
		return "true"
	}
	if b == "false" {
		return tNot(a)
	}
	return "(=> " + a + " " + b + ")"
}

func tIte(c, a, b string) string {
	if c == "true" {
		return a
	}
	if c == "false" {
		return b
	}
	if a == b {
		return a
	}
	return "(ite " + c + " " + a + " " + b + ")"
}

func tEq(a, b string) string {
	if a == b {
		return "true"
	}
	if x, ok := isNumLit(a); ok {
		if y, ok := isNumLit(b); ok {
			if x.Cmp(y) == 0 {
				return "true"
			}
			return "false"
		}
	}
	if (a == "true" && b == "false") || (a == "false" && b == "true") {
		return "false"
	}
	if b == "true" {
		return a
	}
	if a == "true" {
		return b
	}
	return "(= " + a + " " + b + ")"
}

func tCmp(op, a, b string) string {
	if x, ok := isNumLit(a); ok {
		if y, ok := isNumLit(b); ok {
			c := x.Cmp(y)
			var r bool
			switch op {
			case "<":
				r = c < 0
			case "<=":
				r = c <= 0
			case ">":
				r = c > 0
			case ">=":
				r = c >= 0
			}
			if r {
				return "true"
			}
			return "false"
		}
	}
	return "(" + op + " " + a + " " + b + ")"
}

func tAdd(a, b string) string {
	x, okx := isNumLit(a)
	y, oky := isNumLit(b)
	if okx && oky {
		return bignum(new(big.Int).Add(x, y))
	}
	if okx && x.Sign() == 0 {
		return b
	}
	if oky && y.Sign() == 0 {
		return a
	}
	return "(+ " + a + " " + b + ")"
}

func tSub(a, b string) string {
	x, okx := isNumLit(a)
	y, oky := isNumLit(b)
	if okx && oky {
		return bignum(new(big.Int).Sub(x, y))
	}
	if oky && y.Sign() == 0 {
		return a
	}
	if a == b {
		return "0"
	}
	return "(- " + a + " " + b + ")"
}

func tMul(a, b string) string {
	x, okx := isNumLit(a)
	y, oky := isNumLit(b)
	if okx && oky {
		return bignum(new(big.Int).Mul(x, y))
	}
	if okx && x.Cmp(big.NewInt(1)) == 0 {
		return b
	}
	if oky && y.Cmp(big.NewInt(1)) == 0 {
		return a
	}
	if (okx && x.Sign() == 0) || (oky && y.Sign() == 0) {
		return "0"
	}
	return "(* " + a + " " + b + ")"
}

func tNeg(a string) string {
	if x, ok := isNumLit(a); ok {
		return bignum(new(big.Int).Neg(x))
	}
	return "(- " + a + ")"
}

func tSel(a, i string) string { return "(select " + a + " " + i + ")" }
func tSto(a, i, v string) string {
	return "(store " + a + " " + i + " " + v + ")"
}

func pow2(n uint) *big.Int { return new(big.Int).Lsh(big.NewInt(1), n) }

// prelude shared by every query.
const smtPrelude = `(define-fun gdiv ((a Int) (b Int)) Int (ite (>= a 0) (ite (> b 0) (div a b) (- (div a (- b)))) (ite (> b 0) (- (div (- a) b)) (div (- a) (- b)))))
(define-fun gmod ((a Int) (b Int)) Int (- a (* b (gdiv a b))))
(declare-fun bvand_ (Int Int) Int)
(declare-fun bvor_ (Int Int) Int)
(declare-fun bvxor_ (Int Int) Int)
(declare-fun bvshl_ (Int Int Int) Int)
(declare-fun bvshr_ (Int Int) Int)
(declare-fun box_ (Int Int) Int)
(declare-fun typeof_ (Int) Int)
(declare-fun unwraps_ (Int Int) Bool)
`

// ---- quantifier re-indexing
//
// A quantified formula over a relative index j whose body reads memory at
// (+ off j) is rewritten by the change of variables k = off + j, so that the
// array reads are indexed by the bound variable itself:
//   forall j. lo <= j < hi => P[(+ off j)]   ==>   forall k. lo+off <= k < hi+off => P[k]
// The two are equivalent; the second is in the array property fragment and is
// instantiated by E-matching on (select A k), where the first needs the solver
// to invert the addition.

func isTokChar(c byte) bool {
	return c == '!' || c == '_' || c == '.' || c == '@' || c == '$' || c == '-' || (c >= '0' && c <= '9') || (c >= 'a' && c <= 'z') || (c >= 'A' && c <= 'Z')
}

// tokenOccurrences returns the start offsets of whole-token occurrences of v in s.
func tokenOccurrences(s, v string) []int {
	var out []int
	for i := 0; ; {
		k := strings.Index(s[i:], v)
		if k < 0 {
			return out
		}
		p := i + k
		e := p + len(v)
		if (p == 0 || !isTokChar(s[p-1])) && (e == len(s) || !isTokChar(s[e])) {
			out = append(out, p)
		}
		i = e
	}
}

// reindexOffset finds the offset OFF that occurs most often as (+ OFF v) in s.
func reindexOffset(s, v string) string {
	count := map[string]int{}
	var order []string
	for _, p := range tokenOccurrences(s, v) {
		e := p + len(v)
		if e >= len(s) || s[e] != ')' || p < 1 || s[p-1] != ' ' {
			continue
		}
		// walk back to the matching open paren
		depth := 0
		start := -1
		for q := e; q >= 0; q-- {
			if s[q] == ')' {
				depth++
			} else if s[q] == '(' {
				depth--
				if depth == 0 {
					start = q
					break
				}
			}
		}
		if start < 0 || !strings.HasPrefix(s[start:], "(+ ") {
			continue
		}
		off := s[start+3 : p-1]
		if off == "" || len(tokenOccurrences(off, v)) > 0 {
			continue
		}
		// exactly one balanced operand
		d, ok := 0, true
		for q := 0; q < len(off); q++ {
			switch off[q] {
			case '(':
				d++
			case ')':
				d--
			case ' ':
				if d == 0 {
					ok = false
				}
			}
			if d < 0 {
				ok = false
			}
		}
		if !ok || d != 0 {
			continue
		}
		if count[off] == 0 {
			order = append(order, off)
		}
		count[off]++
	}
	best := ""
	for _, o := range order {
		if best == "" || count[o] > count[best] {
			best = o
		}
	}
	return best
}

func replaceToken(s, v, with string) string {
	occ := tokenOccurrences(s, v)
	if len(occ) == 0 {
		return s
	}
	var b strings.Builder
	last := 0
	for _, p := range occ {
		b.WriteString(s[last:p])
		b.WriteString(with)
		last = p + len(v)
	}
	b.WriteString(s[last:])
	return b.String()
}

// reindex performs the change of variables on the parts of one quantified
// formula (bounds lo <= v < hi and any number of body parts).
func reindex(v, lo, hi string, parts ...string) (string, string, []string) {
	off := reindexOffset(strings.Join(parts, "\x00"), v)
	if off == "" {
		return lo, hi, parts
	}
	const ph = "\x01K\x01"
	out := make([]string, len(parts))
	for i, p := range parts {
		p = strings.ReplaceAll(p, "(+ "+off+" "+v+")", ph)
		p = replaceToken(p, v, "(- "+v+" "+off+")")
		out[i] = strings.ReplaceAll(p, ph, v)
	}
	return tAdd(lo, off), tAdd(hi, off), out
}
