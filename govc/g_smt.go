package main

// SMT term helpers. Terms are SMT-LIB strings; light constant folding keeps
// generated VCs small.

import (
	"fmt"
	"math/big"
	"strings"
)

const (
	sInt  = "Int"
	sBool = "Bool"
	sArrI = "(Array Int Int)"
)

func arrSort(elem string) string { return "(Array Int " + elem + ")" }

func num(n int64) string {
	if n < 0 {
		return fmt.Sprintf("(- %d)", -n)
	}
	return fmt.Sprintf("%d", n)
}

func bignum(n *big.Int) string {
	if n.Sign() < 0 {
		return "(- " + new(big.Int).Neg(n).String() + ")"
	}
	return n.String()
}

func isNumLit(t string) (*big.Int, bool) {
	s := t
	neg := false
	if strings.HasPrefix(s, "(- ") && strings.HasSuffix(s, ")") {
		s = s[3 : len(s)-1]
		neg = true
	}
	if s == "" {
		return nil, false
	}
	for _, c := range s {
		if c < '0' || c > '9' {
			return nil, false
		}
	}
	n, ok := new(big.Int).SetString(s, 10)
	if !ok {
		return nil, false
	}
	if neg {
		n.Neg(n)
	}
	return n, true
}

func tAnd(ts ...string) string {
	var out []string
	for _, t := range ts {
		if t == "true" || t == "" {
			continue
		}
		if t == "false" {
			return "false"
		}
		out = append(out, t)
	}
	switch len(out) {
	case 0:
		return "true"
	case 1:
		return out[0]
	}
	return "(and " + strings.Join(out, " ") + ")"
}

func tOr(ts ...string) string {
	var out []string
	for _, t := range ts {
		if t == "false" || t == "" {
			continue
		}
		if t == "true" {
			return "true"
		}
		out = append(out, t)
	}
	switch len(out) {
	case 0:
		return "false"
	case 1:
		return out[0]
	}
	return "(or " + strings.Join(out, " ") + ")"
}

func tNot(t string) string {
	switch t {
	case "true":
		return "false"
	case "false":
		return "true"
	}
	if strings.HasPrefix(t, "(not ") && balanced(t[5:len(t)-1]) {
		return t[5 : len(t)-1]
	}
	return "(not " + t + ")"
}

func balanced(s string) bool {
	d := 0
	for _, c := range s {
		if c == '(' {
			d++
		} else if c == ')' {
			d--
			if d < 0 {
				return false
			}
		}
	}
	return d == 0
}

func tImp(a, b string) string {
	if a == "true" {
		return b
	}
	if a == "false" || b == "true" {
		return "true"
	}
	if b == "false" {
		return tNot(a)
	}
	return "(=> " + a + " " + b + ")"
}

func tIte(c, a, b string) string {
	if c == "true" {
		return a
	}
	if c == "false" {
		return b
	}
	if a == b {
		return a
	}
	return "(ite " + c + " " + a + " " + b + ")"
}

func tEq(a, b string) string {
	if a == b {
		return "true"
	}
	if x, ok := isNumLit(a); ok {
		if y, ok := isNumLit(b); ok {
			if x.Cmp(y) == 0 {
				return "true"
			}
			return "false"
		}
	}
	if (a == "true" && b == "false") || (a == "false" && b == "true") {
		return "false"
	}
	if b == "true" {
		return a
	}
	if a == "true" {
		return b
	}
	return "(= " + a + " " + b + ")"
}

func tCmp(op, a, b string) string {
	if x, ok := isNumLit(a); ok {
		if y, ok := isNumLit(b); ok {
			c := x.Cmp(y)
			var r bool
			switch op {
			case "<":
				r = c < 0
			case "<=":
				r = c <= 0
			case ">":
				r = c > 0
			case ">=":
				r = c >= 0
			}
			if r {
				return "true"
			}
			return "false"
		}
	}
	return "(" + op + " " + a + " " + b + ")"
}

func tAdd(a, b string) string {
	x, okx := isNumLit(a)
	y, oky := isNumLit(b)
	if okx && oky {
		return bignum(new(big.Int).Add(x, y))
	}
	if okx && x.Sign() == 0 {
		return b
	}
	if oky && y.Sign() == 0 {
		return a
	}
	return "(+ " + a + " " + b + ")"
}

func tSub(a, b string) string {
	x, okx := isNumLit(a)
	y, oky := isNumLit(b)
	if okx && oky {
		return bignum(new(big.Int).Sub(x, y))
	}
	if oky && y.Sign() == 0 {
		return a
	}
	if a == b {
		return "0"
	}
	return "(- " + a + " " + b + ")"
}

func tMul(a, b string) string {
	x, okx := isNumLit(a)
	y, oky := isNumLit(b)
	if okx && oky {
		return bignum(new(big.Int).Mul(x, y))
	}
	if okx && x.Cmp(big.NewInt(1)) == 0 {
		return b
	}
	if oky && y.Cmp(big.NewInt(1)) == 0 {
		return a
	}
	if (okx && x.Sign() == 0) || (oky && y.Sign() == 0) {
		return "0"
	}
	return "(* " + a + " " + b + ")"
}

func tNeg(a string) string {
	if x, ok := isNumLit(a); ok {
		return bignum(new(big.Int).Neg(x))
	}
	return "(- " + a + ")"
}

func tSel(a, i string) string { return "(select " + a + " " + i + ")" }
func tSto(a, i, v string) string {
	return "(store " + a + " " + i + " " + v + ")"
}

func pow2(n uint) *big.Int { return new(big.Int).Lsh(big.NewInt(1), n) }

// prelude shared by every query.
const smtPrelude = `(define-fun gdiv ((a Int) (b Int)) Int (ite (>= a 0) (ite (> b 0) (div a b) (- (div a (- b)))) (ite (> b 0) (- (div (- a) b)) (div (- a) (- b)))))
(define-fun gmod ((a Int) (b Int)) Int (- a (* b (gdiv a b))))
(declare-fun bvand_ (Int Int) Int)
(declare-fun bvor_ (Int Int) Int)
(declare-fun bvxor_ (Int Int) Int)
(declare-fun bvshl_ (Int Int Int) Int)
(declare-fun bvshr_ (Int Int) Int)
(declare-fun box_ (Int Int) Int)
(declare-fun typeof_ (Int) Int)
(declare-fun unwraps_ (Int Int) Bool)
`
