package main

// Replay of counterexamples on the real code: from a `sat` answer, fetch the
// values of the function's parameters (and of the memory reachable from them in
// the entry heap) from the solver, build a Go test that calls the real function
// with those values inside the package (through `go test -overlay`, nothing is
// written to the tree), and check the panic / the compiled contract clause.

import (
	"bytes"
	"context"
	"encoding/json"
	"fmt"
	"go/ast"
	"go/printer"
	"go/token"
	"go/types"
	"math/big"
	"os"
	"os/exec"
	"path/filepath"
	"strconv"
	"strings"
	"time"

	"golang.org/x/tools/go/ssa"
)

type ReplayInfo struct {
	fn       *ssa.Function
	args     []*Val
	contract *FuncContract
	world    *World
}

func init() { tryReplay = replayObligation }

type modelOracle struct {
	collect bool
	terms   []string
	seen    map[string]int
	vals    map[string]string
	vc      *VC
	fail    string
}

func (m *modelOracle) get(term string) string {
	if _, isLit := isNumLit(term); isLit || term == "true" || term == "false" {
		return term
	}
	if m.collect {
		if _, ok := m.seen[term]; !ok {
			m.seen[term] = len(m.terms)
			m.terms = append(m.terms, term)
		}
		return "0"
	}
	if v, ok := m.vals[term]; ok {
		return v
	}
	return "0"
}

func (m *modelOracle) geti(term string) *big.Int {
	v := m.get(term)
	if n, ok := isNumLit(strings.Join(strings.Fields(v), " ")); ok {
		return n
	}
	return big.NewInt(0)
}

// entryHeap: term of a heap array in the function-entry state, or "" when the
// VC never mentions it (then its content is irrelevant: zero).
func (m *modelOracle) entryHeap(name string) string {
	c := name + "@0"
	if m.vc.declared[c] {
		return c
	}
	return ""
}

const replayMaxElems = 48

type goBuilder struct {
	m     *modelOracle
	pkg   *types.Package
	imps  map[string]string // path -> name
	depth int
}

func (g *goBuilder) qual(p *types.Package) string {
	if p == g.pkg {
		return ""
	}
	g.imps[p.Path()] = p.Name()
	return p.Name()
}

func (g *goBuilder) typeStr(t types.Type) string { return types.TypeString(t, g.qual) }

func (g *goBuilder) failf(f string, a ...any) string {
	if g.m.fail == "" {
		g.m.fail = fmt.Sprintf(f, a...)
	}
	return "nil"
}

// build returns Go source for the value of type t whose leaves are the terms L.
func (g *goBuilder) build(t types.Type, L []string) string {
	g.depth++
	defer func() { g.depth-- }()
	if g.depth > 12 {
		return g.failf("value nesting too deep")
	}
	m := g.m
	switch u := under(t).(type) {
	case *types.Basic:
		switch {
		case u.Info()&types.IsBoolean != 0:
			if m.get(L[0]) == "true" {
				return "true"
			}
			return "false"
		case u.Info()&types.IsInteger != 0:
			return g.typeStr(t) + "(" + m.geti(L[0]).String() + ")"
		case u.Info()&types.IsString != 0:
			n := m.geti(L[2])
			if !n.IsInt64() || n.Int64() > 4096 || n.Int64() < 0 {
				return g.failf("string of length %v", n)
			}
			bs := make([]byte, n.Int64())
			off := L[1]
			for k := range bs {
				bs[k] = byte(m.geti(tSel(L[0], tAdd(off, num(int64(k))))).Int64())
			}
			return g.typeStr(t) + "(" + strconv.Quote(string(bs)) + ")"
		case u.Info()&types.IsFloat != 0:
			return g.typeStr(t) + "(0)"
		}
		return g.failf("basic type %v", t)
	case *types.Slice:
		if m.geti(L[0]).Sign() == 0 {
			return g.typeStr(t) + "(nil)"
		}
		n, c := m.geti(L[2]), m.geti(L[3])
		if !n.IsInt64() || n.Int64() > 1<<22 {
			return g.failf("slice of length %v", n)
		}
		et := u.Elem()
		ss := leafSorts(et)
		ln := leafNames(et)
		var elems []string
		lim := int(n.Int64())
		big := false
		if lim > 4096 || (len(ss) > 1 && lim > replayMaxElems) {
			// long slice: only a prefix of the elements is taken from the model,
			// the rest stays zero (the replay may then not reproduce the failure)
			big = true
			lim = replayMaxElems
		}
		if !c.IsInt64() || c.Int64() > 1<<22 {
			c = new(bigInt).Set(n)
		}
		for k := 0; k < lim; k++ {
			el := make([]string, len(ss))
			for j := range ss {
				h := m.entryHeap("A_" + typeKey(et) + "_" + ln[j])
				if h == "" {
					el[j] = zeroLeaf(ss[j])
				} else {
					el[j] = tSel(tSel(h, L[0]), tAdd(L[1], num(int64(k))))
				}
			}
			elems = append(elems, g.build(et, el))
		}
		lit := g.typeStr(t) + "{" + strings.Join(elems, ", ") + "}"
		if big {
			return "func() " + g.typeStr(t) + " { s := make(" + g.typeStr(t) + ", " + n.String() + ", " + c.String() + "); copy(s, " + lit + "); return s }()"
		}
		if c.Int64() > n.Int64() {
			return "append(make(" + g.typeStr(t) + ", 0, " + c.String() + "), " + lit + "...)"
		}
		return lit
	case *types.Array:
		if u.Len() > 64 {
			return g.failf("array of %d elements", u.Len())
		}
		var elems []string
		for k := int64(0); k < u.Len(); k++ {
			el := make([]string, len(L))
			for j := range L {
				if strings.HasPrefix(L[j], "((as const") {
					el[j] = zeroLeaf(leafSorts(u.Elem())[j])
				} else {
					el[j] = tSel(L[j], num(k))
				}
			}
			elems = append(elems, g.build(u.Elem(), el))
		}
		return g.typeStr(t) + "{" + strings.Join(elems, ", ") + "}"
	case *types.Struct:
		var fs []string
		off := 0
		for i := 0; i < u.NumFields(); i++ {
			f := u.Field(i)
			n := nLeaves(f.Type())
			if f.Name() != "_" && (f.Exported() || f.Pkg() == g.pkg) {
				if _, isMutex := f.Type().(*types.Named); isMutex && strings.HasPrefix(f.Type().String(), "sync.") {
					off += n
					continue
				}
				fs = append(fs, f.Name()+": "+g.build(f.Type(), L[off:off+n]))
			}
			off += n
		}
		return g.typeStr(t) + "{" + strings.Join(fs, ", ") + "}"
	case *types.Pointer:
		if m.geti(L[0]).Sign() == 0 {
			return "(" + g.typeStr(t) + ")(nil)"
		}
		et := u.Elem()
		if _, ok := under(et).(*types.Struct); !ok {
			return g.failf("pointer to %v", et)
		}
		ss := leafSorts(et)
		ln := leafNames(et)
		el := make([]string, len(ss))
		for j := range ss {
			h := m.entryHeap("H_" + typeKey(et) + "_" + ln[j])
			if h == "" {
				el[j] = zeroLeaf(ss[j])
			} else {
				el[j] = tSel(h, L[0])
			}
		}
		return "&" + g.build(et, el)
	case *types.Interface:
		if m.geti(L[0]).Sign() == 0 {
			return "nil"
		}
		if t.String() == "error" {
			g.imps["errors"] = "errors"
			return `errors.New("govc-replay")`
		}
		return g.failf("non-nil interface %v", t)
	case *types.Map, *types.Chan, *types.Signature:
		if m.geti(L[0]).Sign() == 0 {
			return "nil"
		}
		return g.failf("non-nil %v", t)
	}
	return g.failf("type %v", t)
}

// goClause renders a contract clause as Go; ok=false when it uses a form that
// cannot be executed (ghost state, old() under binders, uninterpreted or
// recursive spec functions, ...).
type clauseGen struct {
	w       *World
	pkg     *types.Package
	olds    []string // snapshot statements emitted before the call
	nold    int
	bound   map[string]bool
	bad     string
	specs   map[string]bool
	helpers []string
}

func (c *clauseGen) failf(f string, a ...any) string {
	if c.bad == "" {
		c.bad = fmt.Sprintf(f, a...)
	}
	return "true"
}

func nodeStr(n ast.Node) string {
	var b bytes.Buffer
	printer.Fprint(&b, token.NewFileSet(), n)
	return b.String()
}

func (c *clauseGen) expr(e ast.Expr) string {
	switch n := e.(type) {
	case *ast.ParenExpr:
		return "(" + c.expr(n.X) + ")"
	case *ast.BasicLit, *ast.Ident:
		if id, ok := n.(*ast.Ident); ok && (id.Name == "_n" || id.Name == "_k") {
			return c.failf("loop counter in clause")
		}
		return nodeStr(n)
	case *ast.UnaryExpr:
		return n.Op.String() + c.expr(n.X)
	case *ast.StarExpr:
		return "*" + c.expr(n.X)
	case *ast.BinaryExpr:
		return "(" + c.expr(n.X) + " " + n.Op.String() + " " + c.expr(n.Y) + ")"
	case *ast.SelectorExpr:
		if id, ok := n.X.(*ast.Ident); ok && id.Name == "ghost" {
			return c.failf("ghost state")
		}
		return c.expr(n.X) + "." + n.Sel.Name
	case *ast.IndexExpr:
		return c.expr(n.X) + "[" + c.expr(n.Index) + "]"
	case *ast.SliceExpr:
		lo, hi := "", ""
		if n.Low != nil {
			lo = c.expr(n.Low)
		}
		if n.High != nil {
			hi = c.expr(n.High)
		}
		return c.expr(n.X) + "[" + lo + ":" + hi + "]"
	case *ast.CallExpr:
		if id, ok := n.Fun.(*ast.Ident); ok {
			switch id.Name {
			case "implies_":
				return "(!(" + c.expr(n.Args[0]) + ") || (" + c.expr(n.Args[1]) + "))"
			case "iff_":
				return "((" + c.expr(n.Args[0]) + ") == (" + c.expr(n.Args[1]) + "))"
			case "forall_", "exists_":
				v := n.Args[0].(*ast.Ident).Name
				c.bound[v] = true
				body := c.expr(n.Args[3])
				delete(c.bound, v)
				if id.Name == "forall_" {
					return "func() bool { for " + v + " := int(" + c.expr(n.Args[1]) + "); " + v + " < int(" + c.expr(n.Args[2]) + "); " + v + "++ { if !(" + body + ") { return false } }; return true }()"
				}
				return "func() bool { for " + v + " := int(" + c.expr(n.Args[1]) + "); " + v + " < int(" + c.expr(n.Args[2]) + "); " + v + "++ { if " + body + " { return true } }; return false }()"
			case "old":
				inner := n.Args[0]
				usesBound := false
				ast.Inspect(inner, func(x ast.Node) bool {
					if i, ok := x.(*ast.Ident); ok && c.bound[i.Name] {
						usesBound = true
					}
					return true
				})
				if usesBound {
					return c.failf("old() under a binder")
				}
				c.nold++
				name := fmt.Sprintf("old_%d", c.nold)
				c.olds = append(c.olds, name+" := "+c.expr(inner))
				return name
			case "len", "cap", "min", "max", "int", "uint", "int64", "uint64", "uint32", "int32", "uint8", "byte", "uint16", "string":
				var as []string
				for _, a := range n.Args {
					as = append(as, c.expr(a))
				}
				return id.Name + "(" + strings.Join(as, ", ") + ")"
			case "bytesEq":
				return "(string(" + c.expr(n.Args[0]) + ") == string(" + c.expr(n.Args[1]) + "))"
			case "ite", "entry", "fresh", "backing", "sameSlice", "sameStr", "seq", "has", "visited", "cbcount", "cbarg0", "cbarg1", "events", "isErr", "typeIs", "forall_t", "exists_t":
				return c.failf("%s() is not executable", id.Name)
			}
			if sf := c.w.specFunc(c.pkg, id.Name); sf != nil {
				if sf.Body == nil || sf.Rec {
					return c.failf("spec function %s is uninterpreted or recursive", id.Name)
				}
				c.specHelper(sf)
				var as []string
				for _, a := range n.Args {
					as = append(as, c.expr(a))
				}
				return "spec_" + id.Name + "(" + strings.Join(as, ", ") + ")"
			}
		}
		// call to real code (methods, functions): keep as is
		var as []string
		for _, a := range n.Args {
			as = append(as, c.expr(a))
		}
		return c.expr(n.Fun) + "(" + strings.Join(as, ", ") + ")"
	case *ast.CompositeLit:
		return nodeStr(n)
	}
	return c.failf("expression %T", e)
}

func (c *clauseGen) specHelper(sf *SpecFunc) {
	if c.specs[sf.Name] {
		return
	}
	c.specs[sf.Name] = true
	var ps []string
	for _, p := range sf.Params {
		ps = append(ps, p.Name+" "+nodeStr(p.Type))
	}
	sub := &clauseGen{w: c.w, pkg: c.pkg, bound: map[string]bool{}, specs: c.specs}
	body := sub.expr(sf.Body)
	if sub.bad != "" {
		c.failf("%s", sub.bad)
	}
	c.helpers = append(c.helpers, sub.helpers...)
	c.helpers = append(c.helpers, "func spec_"+sf.Name+"("+strings.Join(ps, ", ")+") "+nodeStr(sf.Ret)+" { return "+body+" }")
}

func replayObligation(w *World, repo, path string, o *Obl) (bool, string, string) {
	ri := o.vc.replay
	if ri == nil || ri.fn == nil || ri.fn.Pkg == nil {
		return false, "", ""
	}
	fn := ri.fn
	if fn.Parent() != nil || fn.TypeParams().Len() > 0 || fn.Signature.Variadic() {
		return false, "", "replay: closures, generic and variadic functions are not replayed"
	}
	expectPanic := false
	var clause *Clause
	switch o.Kind {
	case "bounds", "nil", "div0", "panic", "typeassert":
		expectPanic = true
	case "ensures":
		for _, e := range ri.contract.Ensures {
			if normText(e.Text) == o.Text {
				clause = e
			}
		}
		if clause == nil {
			return false, "", "replay: clause not found"
		}
	default:
		return false, "", "replay: obligations of kind " + o.Kind + " refer to an intermediate state; no value replay"
	}
	// phase A: collect terms, phase B: build values
	mo := &modelOracle{collect: true, seen: map[string]int{}, vc: o.vc}
	gb := &goBuilder{m: mo, pkg: fn.Pkg.Pkg, imps: map[string]string{}}
	for i, p := range fn.Params {
		gb.build(p.Type(), ri.args[i].L)
	}
	// second pass needs lengths to be real: iterate to a fixpoint (lengths first)
	var vals map[string]string
	for round := 0; round < 3; round++ {
		v, err := queryModel(o, mo.terms)
		if err != "" {
			return false, "", "replay: " + err
		}
		vals = v
		n0 := len(mo.terms)
		mo2 := &modelOracle{collect: true, seen: mo.seen, terms: mo.terms, vc: o.vc}
		// re-walk with known values so that element terms of the right length are collected
		mo2.vals = vals
		walker := &lenAwareOracle{mo2}
		gb2 := &goBuilder{m: walker.modelOracle, pkg: fn.Pkg.Pkg, imps: map[string]string{}}
		walker.collectWithLengths(gb2, fn, ri.args)
		mo.terms, mo.seen = mo2.terms, mo2.seen
		if len(mo.terms) == n0 {
			break
		}
	}
	mo.collect = false
	mo.vals = vals
	mo.fail = ""
	gb = &goBuilder{m: mo, pkg: fn.Pkg.Pkg, imps: map[string]string{}}
	var argSrc []string
	for i, p := range fn.Params {
		argSrc = append(argSrc, gb.build(p.Type(), ri.args[i].L))
	}
	if mo.fail != "" {
		return false, "", "replay: model value not constructible: " + mo.fail
	}
	// the test
	var b strings.Builder
	sig := fn.Signature
	names := make([]string, len(fn.Params))
	for i, p := range fn.Params {
		names[i] = p.Name()
		if names[i] == "" || names[i] == "_" {
			names[i] = fmt.Sprintf("arg%d", i)
		}
	}
	var call string
	if sig.Recv() != nil {
		call = names[0] + "." + fn.Name() + "(" + strings.Join(names[1:], ", ") + ")"
	} else {
		call = fn.Name() + "(" + strings.Join(names, ", ") + ")"
	}
	rn := resultNames(sig, ri.contract)
	cg := &clauseGen{w: w, pkg: fn.Pkg.Pkg, bound: map[string]bool{}, specs: map[string]bool{}}
	clauseSrc := "true"
	if clause != nil {
		clauseSrc = cg.expr(clause.Expr)
		if cg.bad != "" {
			return false, "", "replay: clause not executable: " + cg.bad
		}
	}
	body := &strings.Builder{}
	fmt.Fprintf(body, "func TestGovcReplay(t *testing.T) {\n")
	fmt.Fprintf(body, "\tdefer func() {\n\t\tif r := recover(); r != nil {\n\t\t\tfmt.Printf(\"GOVC-REPLAY: PANIC %%v\\n\", r)\n\t\t\tt.Fatalf(\"panic: %%v\", r)\n\t\t}\n\t}()\n")
	for i := range fn.Params {
		fmt.Fprintf(body, "\t%s := %s\n\t_ = %s\n", names[i], argSrc[i], names[i])
	}
	for _, s := range cg.olds {
		fmt.Fprintf(body, "\t%s\n", s)
	}
	if sig.Results().Len() > 0 {
		fmt.Fprintf(body, "\t%s := %s\n", strings.Join(rn, ", "), call)
		for _, r := range rn {
			fmt.Fprintf(body, "\t_ = %s\n", r)
		}
		if sig.Results().Len() == 1 {
			fmt.Fprintf(body, "\tresult := %s\n\t_ = result\n", rn[0])
		}
		for i, r := range rn {
			if r != fmt.Sprintf("r%d", i) {
				fmt.Fprintf(body, "\tr%d := %s\n\t_ = r%d\n", i, r, i)
			}
		}
	} else {
		fmt.Fprintf(body, "\t%s\n", call)
	}
	if clause != nil {
		fmt.Fprintf(body, "\tif !(%s) {\n\t\tfmt.Println(\"GOVC-REPLAY: CLAUSE-FALSE\")\n\t\tt.Fatalf(\"contract clause violated: %%s\", %s)\n\t}\n", clauseSrc, strconv.Quote(clause.Text))
	}
	fmt.Fprintf(body, "\tfmt.Println(\"GOVC-REPLAY: OK\")\n}\n")
	fmt.Fprintf(&b, "package %s\n\nimport (\n\t\"fmt\"\n\t\"testing\"\n", fn.Pkg.Pkg.Name())
	for p, n := range gb.imps {
		if p != "fmt" && p != "testing" {
			fmt.Fprintf(&b, "\t%s %q\n", n, p)
		}
	}
	fmt.Fprintf(&b, ")\n\n")
	for _, h := range cg.helpers {
		b.WriteString(h + "\n\n")
	}
	b.WriteString(body.String())
	testPath := strings.TrimSuffix(path, ".json") + "_replay_test.go"
	os.MkdirAll(filepath.Dir(testPath), 0o755)
	if err := os.WriteFile(testPath, []byte(b.String()), 0o644); err != nil {
		return false, "", err.Error()
	}
	pkgDir := strings.TrimPrefix(fn.Pkg.Pkg.Path(), modPath+"/")
	ok, out := runReplayTest(repo, pkgDir, testPath)
	confirmed := false
	if expectPanic {
		confirmed = strings.Contains(out, "GOVC-REPLAY: PANIC")
	} else {
		confirmed = strings.Contains(out, "GOVC-REPLAY: CLAUSE-FALSE") || strings.Contains(out, "GOVC-REPLAY: PANIC")
	}
	_ = ok
	// remember where to run it again
	meta := map[string]string{"replay_pkg_dir": pkgDir}
	mb, _ := json.Marshal(meta)
	os.WriteFile(testPath+".meta", mb, 0o644)
	return confirmed, testPath, out
}

type lenAwareOracle struct{ *modelOracle }

func (l *lenAwareOracle) collectWithLengths(g *goBuilder, fn *ssa.Function, args []*Val) {
	// values known so far drive how many elements are collected: use a hybrid
	// oracle that answers from vals when available and records otherwise
	l.collect = false
	h := &hybridOracle{l.modelOracle}
	g.m = h.modelOracle
	origGet := l.vals
	_ = origGet
	// mark: unknown terms are recorded through collect=true on miss
	l.collect = true
	for i, p := range fn.Params {
		g.buildHybrid(p.Type(), args[i].L)
	}
}

type hybridOracle struct{ *modelOracle }

// buildHybrid walks like build, but reads lengths from the values already known.
func (g *goBuilder) buildHybrid(t types.Type, L []string) {
	m := g.m
	known := func(term string) *big.Int {
		if n, ok := isNumLit(term); ok {
			return n
		}
		if v, ok := m.vals[term]; ok {
			if n, ok := isNumLit(strings.Join(strings.Fields(v), " ")); ok {
				return n
			}
		}
		m.get(term)
		return big.NewInt(0)
	}
	g.depth++
	defer func() { g.depth-- }()
	if g.depth > 12 {
		return
	}
	switch u := under(t).(type) {
	case *types.Basic:
		if u.Info()&types.IsString != 0 {
			n := known(L[2])
			known(L[1])
			if n.IsInt64() && n.Int64() <= 4096 {
				for k := int64(0); k < n.Int64(); k++ {
					m.get(tSel(L[0], tAdd(L[1], num(k))))
				}
			}
			return
		}
		m.get(L[0])
	case *types.Slice:
		ref := known(L[0])
		known(L[1])
		n := known(L[2])
		known(L[3])
		if ref.Sign() == 0 || !n.IsInt64() {
			return
		}
		et := u.Elem()
		ss := leafSorts(et)
		ln := leafNames(et)
		lim := n.Int64()
		if lim > 4096 || (len(ss) > 1 && lim > replayMaxElems) {
			lim = replayMaxElems
		}
		for k := int64(0); k < lim; k++ {
			el := make([]string, len(ss))
			for j := range ss {
				hname := m.entryHeap("A_" + typeKey(et) + "_" + ln[j])
				if hname == "" {
					el[j] = zeroLeaf(ss[j])
				} else {
					el[j] = tSel(tSel(hname, L[0]), tAdd(L[1], num(k)))
				}
			}
			g.buildHybrid(et, el)
		}
	case *types.Array:
		if u.Len() > 64 {
			return
		}
		for k := int64(0); k < u.Len(); k++ {
			el := make([]string, len(L))
			for j := range L {
				if strings.HasPrefix(L[j], "((as const") {
					el[j] = zeroLeaf(leafSorts(u.Elem())[j])
				} else {
					el[j] = tSel(L[j], num(k))
				}
			}
			g.buildHybrid(u.Elem(), el)
		}
	case *types.Struct:
		off := 0
		for i := 0; i < u.NumFields(); i++ {
			n := nLeaves(u.Field(i).Type())
			g.buildHybrid(u.Field(i).Type(), L[off:off+n])
			off += n
		}
	case *types.Pointer:
		ref := known(L[0])
		if ref.Sign() == 0 {
			return
		}
		et := u.Elem()
		if _, ok := under(et).(*types.Struct); !ok {
			return
		}
		ss := leafSorts(et)
		ln := leafNames(et)
		el := make([]string, len(ss))
		for j := range ss {
			hname := m.entryHeap("H_" + typeKey(et) + "_" + ln[j])
			if hname == "" {
				el[j] = zeroLeaf(ss[j])
			} else {
				el[j] = tSel(hname, L[0])
			}
		}
		g.buildHybrid(et, el)
	default:
		for _, l := range L {
			m.get(l)
		}
	}
}

// queryModel asks the solver that answered `sat` for the values of the terms.
func queryModel(o *Obl, terms []string) (map[string]string, string) {
	if len(terms) == 0 {
		return map[string]string{}, ""
	}
	var b strings.Builder
	b.WriteString("(set-option :produce-models true)\n(set-logic ALL)\n")
	b.WriteString(smtPrelude)
	for _, d := range o.vc.recDefs {
		b.WriteString(d + "\n")
	}
	for _, l := range o.vc.lines[:o.N] {
		b.WriteString(l + "\n")
	}
	b.WriteString("(assert (not " + o.Goal + "))\n(check-sat)\n")
	b.WriteString("(get-value (" + strings.Join(terms, "\n ") + "))\n")
	f, err := os.CreateTemp("", "govc-model-*.smt2")
	if err != nil {
		return nil, err.Error()
	}
	defer os.Remove(f.Name())
	f.WriteString(b.String())
	f.Close()
	solver := o.Solver
	if solver == "" || solver == "trivial" {
		solver = "z3-new"
	}
	_, out, _ := runSolver(context.Background(), solver, f.Name(), 30)
	i := strings.Index(out, "((")
	if !strings.HasPrefix(strings.TrimSpace(out), "sat") || i < 0 {
		return nil, "no model: " + truncate(out, 200)
	}
	vals := parseValuePairs(out[i:])
	res := map[string]string{}
	for k, t := range terms {
		if k < len(vals) {
			res[t] = vals[k]
		}
	}
	return res, ""
}

// parseValuePairs returns the value part of each (term value) pair, in order.
func parseValuePairs(s string) []string {
	var out []string
	depth := 0
	start := -1
	for k := 0; k < len(s); k++ {
		switch s[k] {
		case '(':
			depth++
			if depth == 2 {
				start = k
			}
		case ')':
			if depth == 2 && start >= 0 {
				out = append(out, secondSexp(s[start+1:k]))
				start = -1
			}
			depth--
			if depth == 0 {
				return out
			}
		}
	}
	return out
}

// secondSexp: the second s-expression of "a b".
func secondSexp(s string) string {
	s = strings.TrimSpace(s)
	// skip the first s-expression
	i := 0
	if len(s) > 0 && s[0] == '(' {
		d := 0
		for ; i < len(s); i++ {
			if s[i] == '(' {
				d++
			} else if s[i] == ')' {
				d--
				if d == 0 {
					i++
					break
				}
			}
		}
	} else {
		for i < len(s) && s[i] != ' ' && s[i] != '\n' && s[i] != '\t' {
			i++
		}
	}
	return strings.TrimSpace(s[i:])
}

func init() {
	runReplayTestImpl = func(repo, pkgDir, testPath string) (bool, string) {
		ov := map[string]map[string]string{"Replace": {filepath.Join(repo, pkgDir, "zz_govc_replay_test.go"): testPath}}
		ovb, _ := json.Marshal(ov)
		ovf, err := os.CreateTemp("", "govc-overlay-*.json")
		if err != nil {
			return false, err.Error()
		}
		defer os.Remove(ovf.Name())
		ovf.Write(ovb)
		ovf.Close()
		ctx, cancel := context.WithTimeout(context.Background(), 300*time.Second)
		defer cancel()
		cmd := exec.CommandContext(ctx, "go", "test", "-overlay", ovf.Name(), "-vet=off", "-timeout", "60s", "-count=1", "-run", "^TestGovcReplay$", "./"+pkgDir+"/")
		cmd.Dir = repo
		var out bytes.Buffer
		cmd.Stdout = &out
		cmd.Stderr = &out
		err = cmd.Run()
		return err != nil, truncate(out.String(), 3000)
	}
}
