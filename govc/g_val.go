package main

// Symbolic values: a Go type plus a flat vector of SMT leaf terms.
//
// Layout (leaves) per underlying type:
//   bool                      [Bool]
//   integers, float, uintptr  [Int]          (floats are opaque Ints)
//   string                    [(Array Int Int) arr, Int off, Int len]
//   slice                     [Int ref, Int off, Int len, Int cap]
//   pointer/map/chan/func/interface [Int]
//   struct                    concatenation of the fields' leaves
//   array [N]E                for each leaf sort S of E: (Array Int S)
//   tuple                     concatenation
// Executor-level extras (closures, pointers into cells) ride in X.

import (
	"fmt"
	"go/types"
	"regexp"
	"strings"
)

var byteRe = regexp.MustCompile(`\bbyte\b`)
var runeRe = regexp.MustCompile(`\brune\b`)

type Val struct {
	Ty  types.Type
	L   []string
	X   any  // *PtrPath | *Closure | *GlobalFn | *BuiltinFn | *IterState
	Seq bool // spec-level immutable sequence: L = [arr, off, len] for a slice type
}

func under(t types.Type) types.Type {
	for {
		switch tt := t.(type) {
		case *types.Named:
			t = tt.Underlying()
		case *types.Alias:
			t = types.Unalias(tt)
		default:
			return t.Underlying()
		}
	}
}

func leafSorts(t types.Type) []string {
	switch u := under(t).(type) {
	case *types.Basic:
		switch {
		case u.Info()&types.IsBoolean != 0:
			return []string{sBool}
		case u.Info()&types.IsString != 0:
			return []string{sArrI, sInt, sInt}
		case u.Kind() == types.UntypedNil:
			return []string{sInt}
		default:
			return []string{sInt}
		}
	case *types.Pointer, *types.Map, *types.Chan, *types.Signature, *types.Interface:
		return []string{sInt}
	case *types.Slice:
		return []string{sInt, sInt, sInt, sInt}
	case *types.Struct:
		var out []string
		for i := 0; i < u.NumFields(); i++ {
			out = append(out, leafSorts(u.Field(i).Type())...)
		}
		return out
	case *types.Array:
		var out []string
		for _, s := range leafSorts(u.Elem()) {
			out = append(out, arrSort(s))
		}
		return out
	case *types.Tuple:
		var out []string
		for i := 0; i < u.Len(); i++ {
			out = append(out, leafSorts(u.At(i).Type())...)
		}
		return out
	case *types.TypeParam:
		return []string{sInt}
	}
	panic(fmt.Sprintf("leafSorts: unsupported type %v (%T)", t, under(t)))
}

func nLeaves(t types.Type) int { return len(leafSorts(t)) }

// leafRanges: per leaf, the value range every element of that leaf has
// ("" = unbounded), and how many extra array levels sit above the ranged value.
type leafRange struct {
	lo, hi string
	extra  int
}

func leafRanges(t types.Type) []leafRange {
	switch u := under(t).(type) {
	case *types.Basic:
		switch {
		case u.Info()&types.IsString != 0:
			return []leafRange{{"0", "255", 1}, {"0", maxIntS, 0}, {"0", maxIntS, 0}}
		case u.Info()&types.IsInteger != 0:
			lo, hi, ok := intRange(t)
			if ok {
				return []leafRange{{lo, hi, 0}}
			}
		}
		return []leafRange{{}}
	case *types.Pointer, *types.Map, *types.Chan, *types.Signature, *types.Interface:
		return []leafRange{{"0", "", 0}}
	case *types.Slice:
		return []leafRange{{"0", "", 0}, {"0", maxIntS, 0}, {"0", maxIntS, 0}, {"0", maxIntS, 0}}
	case *types.Struct:
		var out []leafRange
		for i := 0; i < u.NumFields(); i++ {
			out = append(out, leafRanges(u.Field(i).Type())...)
		}
		return out
	case *types.Array:
		var out []leafRange
		for _, r := range leafRanges(u.Elem()) {
			r.extra++
			out = append(out, r)
		}
		return out
	case *types.Tuple:
		var out []leafRange
		for i := 0; i < u.Len(); i++ {
			out = append(out, leafRanges(u.At(i).Type())...)
		}
		return out
	}
	n := nLeaves(t)
	return make([]leafRange, n)
}

// fieldRange returns the leaf range [lo,hi) of field i of struct type t.
func fieldRange(t types.Type, i int) (int, int) {
	st := under(t).(*types.Struct)
	lo := 0
	for k := 0; k < i; k++ {
		lo += nLeaves(st.Field(k).Type())
	}
	return lo, lo + nLeaves(st.Field(i).Type())
}

func zeroLeaf(sort string) string {
	switch sort {
	case sInt:
		return "0"
	case sBool:
		return "false"
	}
	if strings.HasPrefix(sort, "(Array Int ") {
		inner := sort[len("(Array Int ") : len(sort)-1]
		return "((as const " + sort + ") " + zeroLeaf(inner) + ")"
	}
	panic("zeroLeaf " + sort)
}

func zeroVal(t types.Type) *Val {
	ss := leafSorts(t)
	v := &Val{Ty: t, L: make([]string, len(ss))}
	for i, s := range ss {
		v.L[i] = zeroLeaf(s)
	}
	return v
}

func mkInt(t types.Type, term string) *Val { return &Val{Ty: t, L: []string{term}} }
func mkBool(term string) *Val            { return &Val{Ty: types.Typ[types.Bool], L: []string{term}} }

func (v *Val) T() string {
	if len(v.L) != 1 {
		panic(fmt.Sprintf("T(): value of type %v has %d leaves", v.Ty, len(v.L)))
	}
	return v.L[0]
}

func (v *Val) field(i int) *Val {
	lo, hi := fieldRange(v.Ty, i)
	st := under(v.Ty).(*types.Struct)
	return &Val{Ty: st.Field(i).Type(), L: v.L[lo:hi:hi]}
}

func (v *Val) withField(i int, f *Val) *Val {
	lo, hi := fieldRange(v.Ty, i)
	nl := make([]string, 0, len(v.L))
	nl = append(nl, v.L[:lo]...)
	nl = append(nl, f.L...)
	nl = append(nl, v.L[hi:]...)
	return &Val{Ty: v.Ty, L: nl}
}

// arrIndex reads element i of an array value.
func (v *Val) arrIndex(i string) *Val {
	et := under(v.Ty).(*types.Array).Elem()
	out := &Val{Ty: et, L: make([]string, len(v.L))}
	for k, a := range v.L {
		out.L[k] = tSel(a, i)
	}
	return out
}

func (v *Val) arrStore(i string, e *Val) *Val {
	out := &Val{Ty: v.Ty, L: make([]string, len(v.L))}
	for k, a := range v.L {
		out.L[k] = tSto(a, i, e.L[k])
	}
	return out
}

func iteVal(c string, a, b *Val) *Val {
	if a == b {
		return a
	}
	if len(a.L) != len(b.L) {
		panic(fmt.Sprintf("iteVal: layout mismatch %v / %v", a.Ty, b.Ty))
	}
	out := &Val{Ty: a.Ty, L: make([]string, len(a.L)), Seq: a.Seq}
	for i := range a.L {
		out.L[i] = tIte(c, a.L[i], b.L[i])
	}
	if a.X != nil && a.X == b.X {
		out.X = a.X
	} else if a.X != nil || b.X != nil {
		out.X = &mixedX{c, a.X, b.X}
	}
	return out
}

// mixedX marks an executor-level payload that differs between merged paths.
type mixedX struct {
	c    string
	a, b any
}

// integer type info
func intInfo(t types.Type) (bits uint, signed bool, ok bool) {
	b, isb := under(t).(*types.Basic)
	if !isb {
		return 0, false, false
	}
	switch b.Kind() {
	case types.Int8:
		return 8, true, true
	case types.Int16:
		return 16, true, true
	case types.Int32:
		return 32, true, true
	case types.Int64, types.Int:
		return 64, true, true
	case types.Uint8:
		return 8, false, true
	case types.Uint16:
		return 16, false, true
	case types.Uint32:
		return 32, false, true
	case types.Uint64, types.Uint, types.Uintptr:
		return 64, false, true
	case types.UntypedInt, types.UntypedRune:
		return 0, true, true
	}
	return 0, false, false
}

func intRange(t types.Type) (lo, hi string, ok bool) {
	bits, signed, ok := intInfo(t)
	if !ok || bits == 0 {
		return "", "", false
	}
	if signed {
		h := pow2(bits - 1)
		return "(- " + h.String() + ")", new(bigInt).Sub(h, one).String(), true
	}
	return "0", new(bigInt).Sub(pow2(bits), one).String(), true
}

func inRange(t types.Type, term string) string {
	lo, hi, ok := intRange(t)
	if !ok {
		return "true"
	}
	return tAnd(tCmp("<=", lo, term), tCmp("<=", term, hi))
}

// wrapTo gives Go's wrap-around value of the mathematical integer `term` in
// type t, and the condition under which no wrap happens.
func wrapTo(t types.Type, term string) (wrapped string, noWrap string) {
	bits, signed, ok := intInfo(t)
	if !ok || bits == 0 {
		return term, "true"
	}
	if n, isn := isNumLit(term); isn {
		m := pow2(bits)
		r := new(bigInt).Mod(n, m)
		if signed && r.Cmp(pow2(bits-1)) >= 0 {
			r.Sub(r, m)
		}
		if r.Cmp(n) == 0 {
			return term, "true"
		}
		return bignum(r), "false"
	}
	in := inRange(t, term)
	m := pow2(bits).String()
	var w string
	if signed {
		h := pow2(bits - 1).String()
		w = "(- (mod (+ " + term + " " + h + ") " + m + ") " + h + ")"
	} else {
		w = "(mod " + term + " " + m + ")"
	}
	return tIte(in, term, w), in
}

func isString(t types.Type) bool {
	b, ok := under(t).(*types.Basic)
	return ok && b.Info()&types.IsString != 0
}
func isBool(t types.Type) bool {
	b, ok := under(t).(*types.Basic)
	return ok && b.Info()&types.IsBoolean != 0
}
func isInteger(t types.Type) bool {
	b, ok := under(t).(*types.Basic)
	return ok && b.Info()&types.IsInteger != 0
}
func isFloat(t types.Type) bool {
	b, ok := under(t).(*types.Basic)
	return ok && b.Info()&(types.IsFloat|types.IsComplex) != 0
}
func isUntyped(t types.Type) bool {
	b, ok := t.(*types.Basic)
	return ok && b.Info()&types.IsUntyped != 0
}
func isSlice(t types.Type) bool  { _, ok := under(t).(*types.Slice); return ok }
func isArray(t types.Type) bool  { _, ok := under(t).(*types.Array); return ok }
func isStruct(t types.Type) bool { _, ok := under(t).(*types.Struct); return ok }
func isPointer(t types.Type) bool {
	_, ok := under(t).(*types.Pointer)
	return ok
}
func isIface(t types.Type) bool { _, ok := under(t).(*types.Interface); return ok }
func isMap(t types.Type) bool   { _, ok := under(t).(*types.Map); return ok }

func sliceElem(t types.Type) types.Type { return under(t).(*types.Slice).Elem() }
func ptrElem(t types.Type) types.Type   { return under(t).(*types.Pointer).Elem() }

// typeKey is a stable short name of a type used in heap names.
var typeKeyReg = map[string]types.Type{}

func typeKey(t types.Type) string {
	k := typeKey0(t)
	if _, ok := typeKeyReg[k]; !ok {
		typeKeyReg[k] = t
	}
	return k
}

func typeKey0(t types.Type) string {
	s := types.TypeString(t, func(p *types.Package) string { return p.Name() })
	s = byteRe.ReplaceAllString(s, "uint8")
	s = runeRe.ReplaceAllString(s, "int32")
	defer func() {}()
	r := strings.NewReplacer("*", "P", "[]", "S", "[", "A", "]", "_", ".", "_", " ", "", "{", "_", "}", "_", ";", "_", "(", "_", ")", "_", ",", "_", "/", "_")
	return r.Replace(s)
}
