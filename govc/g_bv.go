package main

// Bit-vector lemmas: closed statements over REAL loop-free integer functions of
// /repo (bloom-filter bit tricks, index splitting), proved with exact machine
// arithmetic. A lemma is written in a contract file as
//
//	//@ bvlemma[C56] name: forall idx uint, nx uint, id restic.ID :: <bool Go expression>
//
// The expression may call package-level functions and methods of the package;
// their go/ssa bodies are translated instruction by instruction into SMT
// bit-vector terms of the Go width (64 for int/uint): + - * / % & | ^ &^ << >>,
// comparisons, conversions (zero/sign extension, truncation), constant-index
// reads of array parameters, field reads of a pointer receiver (each field a free
// variable `recv.field`), branches (merged with ite). Loops, calls outside the
// package and memory writes are rejected (the lemma is then reported as a binding
// error, never as proved). `a ==> b` is implication; res0(call)/res1(call) select a
// result of a multi-result call.

import (
	"fmt"
	"go/ast"
	"go/constant"
	"go/parser"
	"go/token"
	"go/types"
	"strings"

	"golang.org/x/tools/go/ssa"
)

type bvVal struct {
	t      string   // term (BV or Bool or array)
	w      int      // width (0: bool, -1: array of bytes)
	signed bool
	tuple  []*bvVal // multi-result
}

type bvCtx struct {
	w      *World
	pkg    *ssa.Package
	decls  []string
	seen   map[string]bool
	nfresh int
	fields map[string]*bvVal // "h.mask" -> var
	depth  int
}

func (c *bvCtx) declare(name, sort string) {
	if !c.seen[name] {
		c.seen[name] = true
		c.decls = append(c.decls, fmt.Sprintf("(declare-const %s %s)", name, sort))
	}
}

func bvWidth(t types.Type) (int, bool, bool) {
	b, ok := t.Underlying().(*types.Basic)
	if !ok {
		return 0, false, false
	}
	switch b.Kind() {
	case types.Bool, types.UntypedBool:
		return 0, false, true
	case types.Int, types.Int64, types.UntypedInt:
		return 64, true, true
	case types.Uint, types.Uint64, types.Uintptr:
		return 64, false, true
	case types.Int32, types.UntypedRune:
		return 32, true, true
	case types.Uint32:
		return 32, false, true
	case types.Int16:
		return 16, true, true
	case types.Uint16:
		return 16, false, true
	case types.Int8:
		return 8, true, true
	case types.Uint8:
		return 8, false, true
	}
	return 0, false, false
}

func bvLit(v int64, w int) string {
	if v < 0 {
		return fmt.Sprintf("(bvneg (_ bv%d %d))", -v, w)
	}
	return fmt.Sprintf("(_ bv%d %d)", v, w)
}

func bvLitU(v uint64, w int) string { return fmt.Sprintf("(_ bv%d %d)", v, w) }

func (c *bvCtx) resize(v *bvVal, w int, toSigned bool) *bvVal {
	if v.w == w {
		return &bvVal{t: v.t, w: w, signed: toSigned}
	}
	if v.w > w {
		return &bvVal{t: fmt.Sprintf("((_ extract %d 0) %s)", w-1, v.t), w: w, signed: toSigned}
	}
	if v.signed {
		return &bvVal{t: fmt.Sprintf("((_ sign_extend %d) %s)", w-v.w, v.t), w: w, signed: toSigned}
	}
	return &bvVal{t: fmt.Sprintf("((_ zero_extend %d) %s)", w-v.w, v.t), w: w, signed: toSigned}
}

func (c *bvCtx) fail(format string, a ...any) { panic(fmt.Errorf(format, a...)) }

func (c *bvCtx) constVal(cv constant.Value, t types.Type) *bvVal {
	w, sg, ok := bvWidth(t)
	if !ok {
		c.fail("constant of type %v", t)
	}
	if w == 0 {
		if constant.BoolVal(cv) {
			return &bvVal{t: "true"}
		}
		return &bvVal{t: "false"}
	}
	if i, exact := constant.Int64Val(constant.ToInt(cv)); exact {
		return &bvVal{t: bvLit(i, w), w: w, signed: sg}
	}
	if u, exact := constant.Uint64Val(constant.ToInt(cv)); exact {
		return &bvVal{t: bvLitU(u, w), w: w, signed: sg}
	}
	c.fail("constant %v out of range", cv)
	return nil
}

func (c *bvCtx) binop(op token.Token, a, b *bvVal, resT types.Type) *bvVal {
	if a.w == 0 && b.w == 0 {
		switch op {
		case token.EQL:
			return &bvVal{t: "(= " + a.t + " " + b.t + ")"}
		case token.NEQ:
			return &bvVal{t: "(not (= " + a.t + " " + b.t + "))"}
		case token.LAND:
			return &bvVal{t: "(and " + a.t + " " + b.t + ")"}
		case token.LOR:
			return &bvVal{t: "(or " + a.t + " " + b.t + ")"}
		}
		c.fail("bool operator %v", op)
	}
	if a.w <= 0 || b.w <= 0 {
		c.fail("operator %v on non-integers", op)
	}
	if op == token.SHL || op == token.SHR {
		// Go: count is unsigned (or non-negative); counts >= width give 0 (or sign fill)
		cnt := b
		if cnt.w != a.w {
			if cnt.w > a.w {
				// large counts must not be truncated to small ones: saturate
				big := fmt.Sprintf("(bvuge %s %s)", cnt.t, bvLit(int64(a.w), cnt.w))
				tr := c.resize(cnt, a.w, false)
				cnt = &bvVal{t: fmt.Sprintf("(ite %s %s %s)", big, bvLit(int64(a.w), a.w), tr.t), w: a.w}
			} else {
				cnt = c.resize(&bvVal{t: cnt.t, w: cnt.w, signed: false}, a.w, false)
			}
		}
		f := "bvshl"
		if op == token.SHR {
			f = "bvlshr"
			if a.signed {
				f = "bvashr"
			}
		}
		return &bvVal{t: fmt.Sprintf("(%s %s %s)", f, a.t, cnt.t), w: a.w, signed: a.signed}
	}
	if a.w != b.w {
		c.fail("width mismatch %d vs %d for %v", a.w, b.w, op)
	}
	sg := a.signed
	bin := func(f string) *bvVal { return &bvVal{t: "(" + f + " " + a.t + " " + b.t + ")", w: a.w, signed: sg} }
	cmp := func(fs, fu string) *bvVal {
		f := fu
		if sg {
			f = fs
		}
		return &bvVal{t: "(" + f + " " + a.t + " " + b.t + ")"}
	}
	switch op {
	case token.ADD:
		return bin("bvadd")
	case token.SUB:
		return bin("bvsub")
	case token.MUL:
		return bin("bvmul")
	case token.QUO:
		if sg {
			return bin("bvsdiv")
		}
		return bin("bvudiv")
	case token.REM:
		if sg {
			return bin("bvsrem")
		}
		return bin("bvurem")
	case token.AND:
		return bin("bvand")
	case token.OR:
		return bin("bvor")
	case token.XOR:
		return bin("bvxor")
	case token.AND_NOT:
		return &bvVal{t: "(bvand " + a.t + " (bvnot " + b.t + "))", w: a.w, signed: sg}
	case token.EQL:
		return &bvVal{t: "(= " + a.t + " " + b.t + ")"}
	case token.NEQ:
		return &bvVal{t: "(not (= " + a.t + " " + b.t + "))"}
	case token.LSS:
		return cmp("bvslt", "bvult")
	case token.LEQ:
		return cmp("bvsle", "bvule")
	case token.GTR:
		return cmp("bvsgt", "bvugt")
	case token.GEQ:
		return cmp("bvsge", "bvuge")
	}
	c.fail("operator %v", op)
	return nil
}

// callFn symbolically executes a loop-free SSA function on bit-vector values.
func (c *bvCtx) callFn(fn *ssa.Function, args []*bvVal) *bvVal {
	if fn.Blocks == nil {
		c.fail("%s has no body", fn)
	}
	if c.depth > 6 {
		c.fail("call depth")
	}
	c.depth++
	defer func() { c.depth-- }()
	for _, b := range fn.Blocks {
		for _, s := range b.Succs {
			if s.Index <= b.Index && s.Dominates(b) {
				c.fail("%s has a loop", fn)
			}
		}
	}
	regs := map[ssa.Value]*bvVal{}
	cells := map[ssa.Value]*bvVal{} // local Alloc -> current value (per path: handled by path conditions below)
	for i, p := range fn.Params {
		regs[p] = args[i]
	}
	// path condition per block; values merged by ite at phis; stores to locals
	// are handled by executing blocks in index order with guarded updates
	pc := map[*ssa.BasicBlock]string{fn.Blocks[0]: "true"}
	edge := map[[2]int]string{}
	var rets []struct {
		pc string
		v  *bvVal
	}
	val := func(v ssa.Value) *bvVal {
		switch t := v.(type) {
		case *ssa.Const:
			if t.Value == nil {
				c.fail("nil constant")
			}
			return c.constVal(t.Value, t.Type())
		}
		if r, ok := regs[v]; ok {
			return r
		}
		c.fail("value %s (%T) not available in %s", v.Name(), v, fn)
		return nil
	}
	order := append([]*ssa.BasicBlock(nil), fn.Blocks...)
	for _, b := range order {
		p, ok := pc[b]
		if !ok {
			// merge incoming edges
			var ps []string
			for _, pr := range b.Preds {
				if e, ok := edge[[2]int{pr.Index, b.Index}]; ok {
					ps = append(ps, e)
				}
			}
			if len(ps) == 0 {
				continue // unreachable
			}
			p = "(or " + strings.Join(ps, " ") + ")"
			if len(ps) == 1 {
				p = ps[0]
			}
			pc[b] = p
		}
		for _, ins := range b.Instrs {
			switch in := ins.(type) {
			case *ssa.DebugRef:
			case *ssa.Phi:
				var out *bvVal
				for i, e := range in.Edges {
					ec, ok := edge[[2]int{b.Preds[i].Index, b.Index}]
					if !ok {
						continue
					}
					v := val(e)
					if out == nil {
						out = v
					} else {
						out = &bvVal{t: fmt.Sprintf("(ite %s %s %s)", ec, v.t, out.t), w: v.w, signed: v.signed}
					}
				}
				regs[in] = out
			case *ssa.Alloc:
				et := in.Type().(*types.Pointer).Elem()
				if _, isArr := et.Underlying().(*types.Array); isArr {
					cells[in] = nil
				} else if w, sg, ok := bvWidth(et); ok {
					z := "false"
					if w > 0 {
						z = bvLit(0, w)
					}
					cells[in] = &bvVal{t: z, w: w, signed: sg}
				} else {
					cells[in] = nil // pointer / struct locals: usable once stored (receiver spill)
				}
				regs[in] = &bvVal{t: "&" + in.Name(), w: -2}
			case *ssa.Store:
				a, isAlloc := in.Addr.(*ssa.Alloc)
				if !isAlloc {
					c.fail("store through %s in %s", in.Addr.Name(), fn)
				}
				nv := val(in.Val)
				if old := cells[a]; old != nil && p != "true" {
					nv = &bvVal{t: fmt.Sprintf("(ite %s %s %s)", p, nv.t, old.t), w: nv.w, signed: nv.signed}
				}
				cells[a] = nv
			case *ssa.UnOp:
				switch in.Op {
				case token.MUL: // load
					switch a := in.X.(type) {
					case *ssa.Alloc:
						if cells[a] == nil {
							c.fail("read of uninitialised local in %s", fn)
						}
						regs[in] = cells[a]
					case *ssa.IndexAddr:
						base, isAlloc := a.X.(*ssa.Alloc)
						if !isAlloc || cells[base] == nil || cells[base].w != -1 {
							c.fail("indexed read not from a local array in %s", fn)
						}
						idx := c.resize(val(a.Index), 64, false)
						regs[in] = &bvVal{t: fmt.Sprintf("(select %s %s)", cells[base].t, idx.t), w: 8}
					case *ssa.FieldAddr:
						recv, ok := regs[a.X]
						if !ok || recv.w != -3 {
							c.fail("field read not from the receiver in %s", fn)
						}
						st := a.X.Type().(*types.Pointer).Elem().Underlying().(*types.Struct)
						f := st.Field(a.Field)
						w, sg, ok := bvWidth(f.Type())
						if !ok || w == 0 {
							c.fail("field %s of type %v", f.Name(), f.Type())
						}
						name := recv.t + "." + f.Name()
						fv, ok := c.fields[name]
						if !ok {
							vn := strings.ReplaceAll(name, ".", "_")
							c.declare(vn, fmt.Sprintf("(_ BitVec %d)", w))
							fv = &bvVal{t: vn, w: w, signed: sg}
							c.fields[name] = fv
						}
						regs[in] = fv
					default:
						c.fail("load through %T in %s", in.X, fn)
					}
				case token.NOT:
					regs[in] = &bvVal{t: "(not " + val(in.X).t + ")"}
				case token.SUB:
					v := val(in.X)
					regs[in] = &bvVal{t: "(bvneg " + v.t + ")", w: v.w, signed: v.signed}
				case token.XOR:
					v := val(in.X)
					regs[in] = &bvVal{t: "(bvnot " + v.t + ")", w: v.w, signed: v.signed}
				default:
					c.fail("unary %v", in.Op)
				}
			case *ssa.IndexAddr, *ssa.FieldAddr:
				// consumed by the load
			case *ssa.Index:
				base := val(in.X)
				if base.w != -1 {
					c.fail("index of non-array")
				}
				idx := c.resize(val(in.Index), 64, false)
				regs[in] = &bvVal{t: fmt.Sprintf("(select %s %s)", base.t, idx.t), w: 8}
			case *ssa.BinOp:
				regs[in] = c.binop(in.Op, val(in.X), val(in.Y), in.Type())
			case *ssa.Convert:
				w, sg, ok := bvWidth(in.Type())
				if !ok || w == 0 {
					c.fail("conversion to %v", in.Type())
				}
				regs[in] = c.resize(val(in.X), w, sg)
			case *ssa.ChangeType:
				regs[in] = val(in.X)
			case *ssa.Call:
				if b, ok := in.Call.Value.(*ssa.Builtin); ok && strings.HasPrefix(b.Name(), "ssa:") {
					regs[in] = &bvVal{t: "deferstack", w: -5} // naive-form bookkeeping, no meaning
					continue
				}
				callee := in.Call.StaticCallee()
				if callee == nil || callee.Pkg != c.pkg {
					c.fail("call to %v in %s (only functions of the package are translated)", in.Call.Value, fn)
				}
				var as []*bvVal
				for _, a := range in.Call.Args {
					as = append(as, val(a))
				}
				regs[in] = c.callFn(callee, as)
			case *ssa.Extract:
				tv := val(in.Tuple)
				if in.Index >= len(tv.tuple) {
					c.fail("extract")
				}
				regs[in] = tv.tuple[in.Index]
			case *ssa.If:
				cv := val(in.Cond)
				edge[[2]int{b.Index, b.Succs[0].Index}] = "(and " + p + " " + cv.t + ")"
				edge[[2]int{b.Index, b.Succs[1].Index}] = "(and " + p + " (not " + cv.t + "))"
			case *ssa.Jump:
				edge[[2]int{b.Index, b.Succs[0].Index}] = p
			case *ssa.Return:
				var rv *bvVal
				if len(in.Results) == 1 {
					rv = val(in.Results[0])
				} else {
					rv = &bvVal{w: -4}
					for _, r := range in.Results {
						rv.tuple = append(rv.tuple, val(r))
					}
				}
				rets = append(rets, struct {
					pc string
					v  *bvVal
				}{p, rv})
			case *ssa.RunDefers:
			case *ssa.Panic:
				// a path that panics returns nothing: excluded (the lemma speaks about returns)
			default:
				c.fail("instruction %T in %s is outside the bit-vector subset", ins, fn)
			}
		}
	}
	if len(rets) == 0 {
		c.fail("%s never returns", fn)
	}
	out := rets[len(rets)-1].v
	for i := len(rets) - 2; i >= 0; i-- {
		r := rets[i]
		if out.w == -4 {
			nt := &bvVal{w: -4}
			for k := range out.tuple {
				nt.tuple = append(nt.tuple, &bvVal{t: fmt.Sprintf("(ite %s %s %s)", r.pc, r.v.tuple[k].t, out.tuple[k].t), w: out.tuple[k].w, signed: out.tuple[k].signed})
			}
			out = nt
		} else {
			out = &bvVal{t: fmt.Sprintf("(ite %s %s %s)", r.pc, r.v.t, out.t), w: out.w, signed: out.signed}
		}
	}
	// array parameters stored into locals: `*t0 = id` is a Store of an array value
	return out
}

// evalExpr evaluates a lemma expression.
func (c *bvCtx) evalExpr(e ast.Expr, vars map[string]*bvVal, tpkg *types.Package) *bvVal {
	switch n := e.(type) {
	case *ast.ParenExpr:
		return c.evalExpr(n.X, vars, tpkg)
	case *ast.BasicLit:
		if n.Kind == token.INT {
			cv := constant.MakeFromLiteral(n.Value, token.INT, 0)
			return c.constVal(cv, types.Typ[types.Uint64])
		}
	case *ast.Ident:
		if v, ok := vars[n.Name]; ok {
			return v
		}
		if n.Name == "true" || n.Name == "false" {
			return &bvVal{t: n.Name}
		}
		if obj := tpkg.Scope().Lookup(n.Name); obj != nil {
			if k, ok := obj.(*types.Const); ok {
				t := k.Type()
				if b, ok := t.Underlying().(*types.Basic); ok && b.Info()&types.IsUntyped != 0 {
					t = types.Typ[types.Uint64]
				}
				return c.constVal(k.Val(), t)
			}
		}
		c.fail("unknown identifier %s", n.Name)
	case *ast.SelectorExpr:
		if id, ok := n.X.(*ast.Ident); ok {
			if rv, ok := vars[id.Name]; ok && rv.w == -3 {
				name := rv.t + "." + n.Sel.Name
				if fv, ok := c.fields[name]; ok {
					return fv
				}
				// declare on first mention: find the field's type
				if obj := tpkg.Scope().Lookup(rv.tuple[0].t); obj != nil {
					if st, ok := obj.Type().Underlying().(*types.Struct); ok {
						for i := 0; i < st.NumFields(); i++ {
							if st.Field(i).Name() != n.Sel.Name {
								continue
							}
							w, sg, ok := bvWidth(st.Field(i).Type())
							if !ok || w == 0 {
								c.fail("field %s of type %v", name, st.Field(i).Type())
							}
							vn := strings.ReplaceAll(name, ".", "_")
							c.declare(vn, fmt.Sprintf("(_ BitVec %d)", w))
							fv := &bvVal{t: vn, w: w, signed: sg}
							c.fields[name] = fv
							return fv
						}
					}
				}
				c.fail("no field %s", name)
			}
		}
		c.fail("selector %s", types.ExprString(e))
	case *ast.UnaryExpr:
		v := c.evalExpr(n.X, vars, tpkg)
		switch n.Op {
		case token.NOT:
			return &bvVal{t: "(not " + v.t + ")"}
		case token.SUB:
			return &bvVal{t: "(bvneg " + v.t + ")", w: v.w, signed: v.signed}
		case token.XOR:
			return &bvVal{t: "(bvnot " + v.t + ")", w: v.w, signed: v.signed}
		}
	case *ast.BinaryExpr:
		a := c.evalExpr(n.X, vars, tpkg)
		b := c.evalExpr(n.Y, vars, tpkg)
		// integer literals adapt to the other operand
		if _, isLit := n.Y.(*ast.BasicLit); isLit && a.w > 0 && b.w != a.w && n.Op != token.SHL && n.Op != token.SHR {
			b = c.resize(b, a.w, a.signed)
		}
		if _, isLit := n.X.(*ast.BasicLit); isLit && b.w > 0 && a.w != b.w {
			a = c.resize(a, b.w, b.signed)
		}
		if a.w > 0 && b.w > 0 && a.w == b.w && n.Op != token.SHL && n.Op != token.SHR {
			b = &bvVal{t: b.t, w: b.w, signed: a.signed}
		}
		return c.binop(n.Op, a, b, nil)
	case *ast.IndexExpr:
		base := c.evalExpr(n.X, vars, tpkg)
		if base.w != -1 {
			c.fail("index of non-array")
		}
		idx := c.resize(c.evalExpr(n.Index, vars, tpkg), 64, false)
		return &bvVal{t: fmt.Sprintf("(select %s %s)", base.t, idx.t), w: 8}
	case *ast.CallExpr:
		if id, ok := n.Fun.(*ast.Ident); ok {
			switch id.Name {
			case "implies_":
				a := c.evalExpr(n.Args[0], vars, tpkg)
				b := c.evalExpr(n.Args[1], vars, tpkg)
				return &bvVal{t: "(=> " + a.t + " " + b.t + ")"}
			case "iff_":
				a := c.evalExpr(n.Args[0], vars, tpkg)
				b := c.evalExpr(n.Args[1], vars, tpkg)
				return &bvVal{t: "(= " + a.t + " " + b.t + ")"}
			case "res0", "res1", "res2":
				v := c.evalExpr(n.Args[0], vars, tpkg)
				k := int(id.Name[3] - '0')
				if k >= len(v.tuple) {
					c.fail("%s of a call with %d results", id.Name, len(v.tuple))
				}
				return v.tuple[k]
			case "uint", "uint64", "int", "int64", "uint32", "uint8", "byte":
				t := types.Universe.Lookup(id.Name).Type()
				w, sg, _ := bvWidth(t)
				return c.resize(c.evalExpr(n.Args[0], vars, tpkg), w, sg)
			}
			fn := c.pkg.Func(id.Name)
			if fn == nil {
				c.fail("no function %s in %s", id.Name, c.pkg.Pkg.Path())
			}
			var as []*bvVal
			for _, a := range n.Args {
				as = append(as, c.evalExpr(a, vars, tpkg))
			}
			return c.callFn(fn, as)
		}
		if sel, ok := n.Fun.(*ast.SelectorExpr); ok {
			if id, ok := sel.X.(*ast.Ident); ok {
				if rv, ok := vars[id.Name]; ok && rv.w == -3 {
					// method on the symbolic receiver
					tn := rv.tuple[0].t
					obj := tpkg.Scope().Lookup(tn)
					if obj == nil {
						c.fail("type %s", tn)
					}
					m := c.pkg.Prog.LookupMethod(types.NewPointer(obj.Type()), tpkg, sel.Sel.Name)
					if m == nil {
						c.fail("no method %s on *%s", sel.Sel.Name, tn)
					}
					as := []*bvVal{rv}
					for _, a := range n.Args {
						as = append(as, c.evalExpr(a, vars, tpkg))
					}
					return c.callFn(m, as)
				}
			}
		}
		c.fail("call %s", types.ExprString(n.Fun))
	}
	c.fail("expression %s is outside the bit-vector lemma language", types.ExprString(e))
	return nil
}

// proveBVLemma builds the query for a `bvlemma` clause: vars "forall a T, b U :: expr".
func (w *World) proveBVLemma(cf *ContractFile, l *Clause) (res *FuncResult) {
	name := cf.PkgPath + ".bvlemma." + l.Label
	vc := newVC(name)
	res = &FuncResult{Name: name, VC: vc}
	defer func() {
		if r := recover(); r != nil {
			res.Err = "binding: " + fmt.Sprint(r)
		}
		res.Diags = vc.diags
	}()
	p := w.pkgs[cf.PkgPath]
	if p == nil {
		panic("package not loaded")
	}
	sp := w.prog.Package(p.Types)
	c := &bvCtx{w: w, pkg: sp, seen: map[string]bool{}, fields: map[string]*bvVal{}}
	text := strings.TrimSpace(l.Text)
	vars := map[string]*bvVal{}
	if strings.HasPrefix(text, "forall ") {
		i := strings.Index(text, "::")
		if i < 0 {
			panic("forall without ::")
		}
		for _, d := range strings.Split(text[len("forall "):i], ",") {
			fs := strings.Fields(d)
			if len(fs) != 2 {
				panic("variable declaration " + d)
			}
			vn, tn := fs[0], fs[1]
			switch {
			case tn == "restic.ID":
				c.declare("v_"+vn, "(Array (_ BitVec 64) (_ BitVec 8))")
				vars[vn] = &bvVal{t: "v_" + vn, w: -1}
			case strings.HasPrefix(tn, "*"):
				vars[vn] = &bvVal{t: vn, w: -3, tuple: []*bvVal{{t: strings.TrimPrefix(tn, "*")}}}
			default:
				obj := types.Universe.Lookup(tn)
				if obj == nil {
					panic("type " + tn)
				}
				bw, sg, ok := bvWidth(obj.Type())
				if !ok || bw == 0 {
					panic("type " + tn)
				}
				c.declare("v_"+vn, fmt.Sprintf("(_ BitVec %d)", bw))
				vars[vn] = &bvVal{t: "v_" + vn, w: bw, signed: sg}
			}
		}
		text = strings.TrimSpace(text[i+2:])
	}
	ds, err := desugar(text)
	if err != nil {
		panic(err)
	}
	e, err := parser.ParseExpr(ds)
	if err != nil {
		panic(err)
	}
	goal := c.evalExpr(e, vars, p.Types)
	if goal.w != 0 {
		panic("lemma is not a boolean")
	}
	var b strings.Builder
	b.WriteString("(set-logic ALL)\n")
	for _, d := range c.decls {
		b.WriteString(d + "\n")
	}
	b.WriteString("(assert (not " + goal.t + "))\n(check-sat)\n")
	o := &Obl{ID: shortName(name) + "#bvlemma#" + l.Text, Kind: "lemma", Func: shortName(name), Text: l.Text, Tags: l.Tags, vc: vc}
	o.N = -1
	vc.rawQueries = map[*Obl]string{o: b.String()}
	vc.obls = append(vc.obls, o)
	return res
}
