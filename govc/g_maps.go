package main

// Maps: reference Int; per map type three heaps
//   M_<T>_has  : Array Int (Array K Bool)
//   M_<T>_val_j: Array Int (Array K Vleaf_j)
//   M_<T>_card : Array Int Int
// Keys must flatten to a single leaf.

import (
	"fmt"
	"go/token"
	"go/types"
	"strings"

	"golang.org/x/tools/go/ssa"
)

type mapInfo struct {
	key    string
	ksort  string
	vsorts []string
	vnames []string
	kt, vt types.Type
}

// mapHeapKey: the heap family of a map is that of its underlying map type, so
// that a conversion between a named map type and its underlying type (or
// between two named types) keeps referring to the same modelled object.
func mapHeapKey(t types.Type) string {
	return "M_" + typeKey(under(t))
}

func (x *Exec) mapInfo(t types.Type) *mapInfo {
	mt := under(t).(*types.Map)
	ks := leafSorts(mt.Key())
	if isString(mt.Key()) {
		ks = []string{sInt} // keyed by content code
	}
	if len(ks) != 1 {
		// composite keys (structs, arrays): keyed by an uninterpreted code of the
		// flattened key; injectivity is asserted per key that occurs (keyCode)
		if _, ok := flatKeySorts(mt.Key()); !ok {
			panic(fmt.Sprintf("map key type %v is not supported", mt.Key()))
		}
		ks = []string{sInt}
	}
	return &mapInfo{key: mapHeapKey(t), ksort: ks[0], vsorts: leafSorts(mt.Elem()), vnames: leafNames(mt.Elem()), kt: mt.Key(), vt: mt.Elem()}
}

func (mi *mapInfo) hasSort() string { return arrSort("(Array " + mi.ksort + " Bool)") }
func (mi *mapInfo) valSort(j int) string {
	return arrSort("(Array " + mi.ksort + " " + mi.vsorts[j] + ")")
}

// mapKey: SMT key term for a Go key value (strings are keyed by content code).
func (x *Exec) mapKey(st *State, mt types.Type, k *Val) string {
	if isString(k.Ty) {
		return x.strID(k)
	}
	kt := under(mt).(*types.Map).Key()
	if len(leafSorts(kt)) != 1 {
		return x.keyCode(kt, x.coerceKey(k, kt))
	}
	return k.L[0]
}

func (x *Exec) coerceKey(k *Val, kt types.Type) *Val {
	if len(k.L) == len(leafSorts(kt)) {
		return &Val{Ty: kt, L: k.L, X: k.X}
	}
	return k
}

// flatKeySorts: the scalar components of a composite key type.
func flatKeySorts(t types.Type) ([]string, bool) {
	switch u := under(t).(type) {
	case *types.Basic:
		if u.Info()&types.IsString != 0 {
			return []string{sInt}, true
		}
		ls := leafSorts(t)
		return ls, len(ls) == 1
	case *types.Pointer:
		return []string{sInt}, true
	case *types.Struct:
		var out []string
		for i := 0; i < u.NumFields(); i++ {
			fs, ok := flatKeySorts(u.Field(i).Type())
			if !ok {
				return nil, false
			}
			out = append(out, fs...)
		}
		return out, true
	case *types.Array:
		if u.Len() > 64 {
			return nil, false
		}
		es, ok := flatKeySorts(u.Elem())
		if !ok {
			return nil, false
		}
		var out []string
		for i := int64(0); i < u.Len(); i++ {
			out = append(out, es...)
		}
		return out, true
	}
	return nil, false
}

func (x *Exec) flatKeyTerms(v *Val) []string {
	switch u := under(v.Ty).(type) {
	case *types.Basic:
		if u.Info()&types.IsString != 0 {
			return []string{x.strID(v)}
		}
		return []string{v.L[0]}
	case *types.Struct:
		var out []string
		for i := 0; i < u.NumFields(); i++ {
			out = append(out, x.flatKeyTerms(v.field(i))...)
		}
		return out
	case *types.Array:
		var out []string
		for i := int64(0); i < u.Len(); i++ {
			out = append(out, x.flatKeyTerms(v.arrIndex(num(i)))...)
		}
		return out
	}
	return []string{v.L[0]}
}

// keyCode: Int code of a composite map key. Equal keys have equal codes by
// congruence; distinct keys have distinct codes because every component can be
// recovered from the code (asserted for each key that occurs in the VC).
func (x *Exec) keyCode(kt types.Type, k *Val) string {
	sorts, _ := flatKeySorts(kt)
	terms := x.flatKeyTerms(k)
	name := "keycode_" + typeKey(kt)
	if !x.vc.recDone[name] {
		x.vc.recDone[name] = true
		x.vc.recDefs = append(x.vc.recDefs, "(declare-fun "+name+" ("+strings.Join(sorts, " ")+") Int)")
		for j, s := range sorts {
			x.vc.recDefs = append(x.vc.recDefs, fmt.Sprintf("(declare-fun %s_inv%d (Int) %s)", name, j, s))
		}
	}
	code := "(" + name + " " + strings.Join(terms, " ") + ")"
	if x.keyCodes == nil {
		x.keyCodes = map[string]bool{}
	}
	if x.vc.capture != nil || !x.keyCodes[code] {
		var cs []string
		for j := range sorts {
			cs = append(cs, tEq(fmt.Sprintf("(%s_inv%d %s)", name, j, code), terms[j]))
		}
		if x.vc.capture != nil {
			// inside a binder the key may mention bound variables
			x.vc.assume(tAnd(cs...))
		} else {
			x.keyCodes[code] = true
			x.vc.assumeGlobal(tAnd(cs...))
		}
	}
	return code
}

func (x *Exec) mapCard(st *State, m *Val) string {
	mi := x.mapInfo(m.Ty)
	c := tSel(x.heap(st, mi.key+"_card", arrSort(sInt)), m.L[0])
	x.vc.assume(tCmp("<=", "0", c))
	return c
}

func (x *Exec) mapHas(st *State, m *Val, k string) string {
	mi := x.mapInfo(m.Ty)
	return tSel(tSel(x.heap(st, mi.key+"_has", mi.hasSort()), m.L[0]), k)
}

func (x *Exec) mapLookup(st *State, m *Val, k *Val) (*Val, string) {
	mi := x.mapInfo(m.Ty)
	kk := x.mapKey(st, m.Ty, k)
	has := tAnd(tNot(tEq(m.L[0], "0")), x.mapHas(st, m, kk))
	out := &Val{Ty: mi.vt, L: make([]string, len(mi.vsorts))}
	z := zeroVal(mi.vt)
	for j := range mi.vsorts {
		hn := fmt.Sprintf("%s_val_%s", mi.key, mi.vnames[j])
		v := tSel(tSel(x.heap(st, hn, mi.valSort(j)), m.L[0]), kk)
		out.L[j] = tIte(has, v, z.L[j])
	}
	x.typeFacts(out)
	return out, has
}

func (fr *Frame) execMakeMap(st *State, in *ssa.MakeMap) {
	x := fr.x
	mi := x.mapInfo(in.Type())
	r := x.newRef(st)
	hn := mi.key + "_has"
	st.heaps[hn] = x.vc.def(hn, mi.hasSort(), tSto(x.heap(st, hn, mi.hasSort()), r, "((as const (Array "+mi.ksort+" Bool)) false)"))
	cn := mi.key + "_card"
	st.heaps[cn] = x.vc.def(cn, arrSort(sInt), tSto(x.heap(st, cn, arrSort(sInt)), r, "0"))
	fr.set(in, &Val{Ty: in.Type(), L: []string{r}})
}

func (fr *Frame) execMapUpdate(st *State, in *ssa.MapUpdate) {
	x := fr.x
	m := fr.val(st, in.Map)
	k := fr.val(st, in.Key)
	v := fr.val(st, in.Value)
	x.obligeAssume(st, "nil", "map write "+x.w.nodeTextAt(in.Pos()), in.Pos(), tNot(tEq(m.L[0], "0")), nil, true)
	mi := x.mapInfo(in.Map.Type())
	fr.mapFrameCheck(st, m, mi, in.Pos())
	if isIface(mi.kt) && !isIface(k.Ty) {
		k = x.makeIface(st, k, mi.kt)
	}
	if isIface(mi.vt) && !isIface(v.Ty) {
		v = x.makeIface(st, v, mi.vt)
	}
	kk := x.mapKey(st, m.Ty, k)
	had := x.mapHas(st, m, kk)
	hn := mi.key + "_has"
	h := x.heap(st, hn, mi.hasSort())
	st.heaps[hn] = x.vc.def(hn, mi.hasSort(), tSto(h, m.L[0], tSto(tSel(h, m.L[0]), kk, "true")))
	cn := mi.key + "_card"
	ch := x.heap(st, cn, arrSort(sInt))
	st.heaps[cn] = x.vc.def(cn, arrSort(sInt), tSto(ch, m.L[0], tIte(had, tSel(ch, m.L[0]), tAdd(tSel(ch, m.L[0]), "1"))))
	for j := range mi.vsorts {
		vn := fmt.Sprintf("%s_val_%s", mi.key, mi.vnames[j])
		vh := x.heap(st, vn, mi.valSort(j))
		st.heaps[vn] = x.vc.def(vn, mi.valSort(j), tSto(vh, m.L[0], tSto(tSel(vh, m.L[0]), kk, v.L[j])))
	}
}

// mapFrameCheck: like frameCheck, for map writes (m[k] = v, delete): a function
// under contract may only write maps of a family its assigns clause names (at
// the rows it names, if any) or maps it allocated itself. Without this a
// callee that updates a map its assigns clause does not cover would leave the
// caller's view of the map unchanged.
func (fr *Frame) mapFrameCheck(st *State, m *Val, mi *mapInfo, pos token.Pos) {
	x := fr.x
	top := x.top
	if top == nil || top.contract == nil || x.noObl > 0 {
		return
	}
	ok, rows := x.frameAllow(mi.key + "_has")
	if ok {
		return
	}
	goal := tCmp(">", m.L[0], fr.entryAllocTop())
	for _, r := range rows {
		goal = tOr(goal, tEq(m.L[0], r))
	}
	x.oblige(st, "frame", "write "+mi.key, pos, goal, nil, false)
}

func (fr *Frame) mapDelete(st *State, m, k *Val, pos token.Pos) {
	x := fr.x
	mi := x.mapInfo(m.Ty)
	fr.mapFrameCheck(st, m, mi, pos)
	kk := x.mapKey(st, m.Ty, k)
	had := tAnd(tNot(tEq(m.L[0], "0")), x.mapHas(st, m, kk))
	hn := mi.key + "_has"
	h := x.heap(st, hn, mi.hasSort())
	st.heaps[hn] = x.vc.def(hn, mi.hasSort(), tSto(h, m.L[0], tSto(tSel(h, m.L[0]), kk, "false")))
	cn := mi.key + "_card"
	ch := x.heap(st, cn, arrSort(sInt))
	st.heaps[cn] = x.vc.def(cn, arrSort(sInt), tSto(ch, m.L[0], tIte(had, tSub(tSel(ch, m.L[0]), "1"), tSel(ch, m.L[0]))))
}

func (fr *Frame) execLookup(st *State, in *ssa.Lookup) {
	x := fr.x
	m := fr.val(st, in.X)
	k := fr.val(st, in.Index)
	if isString(in.X.Type()) {
		// string index (s[i] on a string-typed Lookup)
		idx := k.T()
		g := tAnd(tCmp("<=", "0", idx), tCmp("<", idx, m.L[2]))
		x.obligeAssume(st, "bounds", x.w.nodeTextAt(in.Pos()), in.Pos(), g, nil, true)
		t := tSel(m.L[0], tAdd(m.L[1], idx))
		x.vc.assume(inRange(types.Typ[types.Uint8], t))
		fr.set(in, mkInt(types.Typ[types.Uint8], t))
		return
	}
	mi := x.mapInfo(in.X.Type())
	if isIface(mi.kt) && !isIface(k.Ty) {
		k = x.makeIface(st, k, mi.kt)
	}
	v, has := x.mapLookup(st, m, k)
	if in.CommaOk {
		fr.set(in, &Val{Ty: in.Type(), L: append(append([]string(nil), v.L...), has)})
		return
	}
	fr.set(in, v)
}

// range over map: the iterator cell holds [count]; the visited set lives in a
// per-iterator SMT array.
type mapIter struct {
	visited string
	m       *Val
}

func (x *Exec) rangeMapInit(st *State, c *Cell, over *Val) {
	mi := x.mapInfo(over.Ty)
	vs := "((as const (Array " + mi.ksort + " Bool)) false)"
	st.cells[c] = &Val{Ty: types.Typ[types.Int], L: []string{"0"}, X: &mapIter{visited: vs, m: over}}
}

// havocMapIter: at a loop header the set of visited keys is unknown, but it is
// a subset of the map's keys.
func (x *Exec) havocMapIter(st *State, it *mapIter) *mapIter {
	mi := x.mapInfo(it.m.Ty)
	vs := x.vc.fresh("visited", "(Array "+mi.ksort+" Bool)")
	x.vc.nfresh++
	q := fmt.Sprintf("q!%d", x.vc.nfresh)
	x.vc.assume("(forall ((" + q + " " + mi.ksort + ")) (=> (select " + vs + " " + q + ") " + tAnd(tNot(tEq(it.m.L[0], "0")), x.mapHas(st, it.m, q)) + "))")
	return &mapIter{visited: vs, m: it.m}
}

func (x *Exec) rangeMapNext(st *State, c *Cell, over *Val, tup *types.Tuple) *Val {
	mi := x.mapInfo(over.Ty)
	cur := st.cells[c]
	it, _ := cur.X.(*mapIter)
	if it == nil {
		it = x.havocMapIter(st, &mapIter{m: over})
	}
	visited := it.visited
	nonnil := tNot(tEq(over.L[0], "0"))
	ok := x.vc.fresh("mapnext", sBool)
	k := x.freshVal("mapkey", mi.kt)
	kk := x.mapKey(st, over.Ty, k)
	x.vc.assume(tImp(ok, tAnd(nonnil, x.mapHas(st, over, kk), tNot(tSel(visited, kk)))))
	x.vc.nfresh++
	q := fmt.Sprintf("q!%d", x.vc.nfresh)
	// the loop ends only when every key has been visited
	x.vc.assume(tImp(tNot(ok), "(forall (("+q+" "+mi.ksort+")) (=> "+tAnd(nonnil, x.mapHas(st, over, q))+" (select "+visited+" "+q+")))"))
	v, _ := x.mapLookup(st, over, k)
	nv := x.vc.def("visited", "(Array "+mi.ksort+" Bool)", tIte(ok, tSto(visited, kk, "true"), visited))
	st.cells[c] = &Val{Ty: types.Typ[types.Int], L: []string{"0"}, X: &mapIter{visited: nv, m: over}}
	out := &Val{Ty: tup, L: []string{ok}}
	out.L = append(out.L, k.L...)
	out.L = append(out.L, v.L...)
	return out
}
