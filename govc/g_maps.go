package main

// Maps: reference Int; per map type three heaps
//   M_<T>_has  : Array Int (Array K Bool)
//   M_<T>_val_j: Array Int (Array K Vleaf_j)
//   M_<T>_card : Array Int Int
// Keys must flatten to a single leaf.

import (
	"fmt"
	"go/types"

	"golang.org/x/tools/go/ssa"
)

type mapInfo struct {
	key    string
	ksort  string
	vsorts []string
	vnames []string
	kt, vt types.Type
}

func (x *Exec) mapInfo(t types.Type) *mapInfo {
	mt := under(t).(*types.Map)
	ks := leafSorts(mt.Key())
	if isString(mt.Key()) {
		ks = []string{sInt} // keyed by content code
	}
	if len(ks) != 1 {
		panic(fmt.Sprintf("map key type %v is not a single SMT value", mt.Key()))
	}
	return &mapInfo{key: "M_" + typeKey(t), ksort: ks[0], vsorts: leafSorts(mt.Elem()), vnames: leafNames(mt.Elem()), kt: mt.Key(), vt: mt.Elem()}
}

func (mi *mapInfo) hasSort() string  { return arrSort("(Array " + mi.ksort + " Bool)") }
func (mi *mapInfo) valSort(j int) string {
	return arrSort("(Array " + mi.ksort + " " + mi.vsorts[j] + ")")
}

// mapKey: SMT key term for a Go key value (strings are keyed by content code).
func (x *Exec) mapKey(st *State, mt types.Type, k *Val) string {
	if isString(k.Ty) {
		return x.strID(k)
	}
	return k.L[0]
}

func (x *Exec) mapCard(st *State, m *Val) string {
	mi := x.mapInfo(m.Ty)
	c := tSel(x.heap(st, mi.key+"_card", arrSort(sInt)), m.L[0])
	x.vc.assume(tCmp("<=", "0", c))
	return c
}

func (x *Exec) mapHas(st *State, m *Val, k string) string {
	mi := x.mapInfo(m.Ty)
	return tSel(tSel(x.heap(st, mi.key+"_has", mi.hasSort()), m.L[0]), k)
}

func (x *Exec) mapLookup(st *State, m *Val, k *Val) (*Val, string) {
	mi := x.mapInfo(m.Ty)
	kk := x.mapKey(st, m.Ty, k)
	has := tAnd(tNot(tEq(m.L[0], "0")), x.mapHas(st, m, kk))
	out := &Val{Ty: mi.vt, L: make([]string, len(mi.vsorts))}
	z := zeroVal(mi.vt)
	for j := range mi.vsorts {
		hn := fmt.Sprintf("%s_val_%s", mi.key, mi.vnames[j])
		v := tSel(tSel(x.heap(st, hn, mi.valSort(j)), m.L[0]), kk)
		out.L[j] = tIte(has, v, z.L[j])
	}
	x.typeFacts(out)
	return out, has
}

func (fr *Frame) execMakeMap(st *State, in *ssa.MakeMap) {
	x := fr.x
	mi := x.mapInfo(in.Type())
	r := x.newRef(st)
	hn := mi.key + "_has"
	st.heaps[hn] = x.vc.def(hn, mi.hasSort(), tSto(x.heap(st, hn, mi.hasSort()), r, "((as const (Array "+mi.ksort+" Bool)) false)"))
	cn := mi.key + "_card"
	st.heaps[cn] = x.vc.def(cn, arrSort(sInt), tSto(x.heap(st, cn, arrSort(sInt)), r, "0"))
	fr.set(in, &Val{Ty: in.Type(), L: []string{r}})
}

func (fr *Frame) execMapUpdate(st *State, in *ssa.MapUpdate) {
	x := fr.x
	m := fr.val(st, in.Map)
	k := fr.val(st, in.Key)
	v := fr.val(st, in.Value)
	x.obligeAssume(st, "nil", "map write "+x.w.nodeTextAt(in.Pos()), in.Pos(), tNot(tEq(m.L[0], "0")), nil, true)
	mi := x.mapInfo(in.Map.Type())
	if isIface(mi.kt) && !isIface(k.Ty) {
		k = x.makeIface(st, k, mi.kt)
	}
	if isIface(mi.vt) && !isIface(v.Ty) {
		v = x.makeIface(st, v, mi.vt)
	}
	kk := x.mapKey(st, m.Ty, k)
	had := x.mapHas(st, m, kk)
	hn := mi.key + "_has"
	h := x.heap(st, hn, mi.hasSort())
	st.heaps[hn] = x.vc.def(hn, mi.hasSort(), tSto(h, m.L[0], tSto(tSel(h, m.L[0]), kk, "true")))
	cn := mi.key + "_card"
	ch := x.heap(st, cn, arrSort(sInt))
	st.heaps[cn] = x.vc.def(cn, arrSort(sInt), tSto(ch, m.L[0], tIte(had, tSel(ch, m.L[0]), tAdd(tSel(ch, m.L[0]), "1"))))
	for j := range mi.vsorts {
		vn := fmt.Sprintf("%s_val_%s", mi.key, mi.vnames[j])
		vh := x.heap(st, vn, mi.valSort(j))
		st.heaps[vn] = x.vc.def(vn, mi.valSort(j), tSto(vh, m.L[0], tSto(tSel(vh, m.L[0]), kk, v.L[j])))
	}
}

func (fr *Frame) mapDelete(st *State, m, k *Val) {
	x := fr.x
	mi := x.mapInfo(m.Ty)
	kk := x.mapKey(st, m.Ty, k)
	had := tAnd(tNot(tEq(m.L[0], "0")), x.mapHas(st, m, kk))
	hn := mi.key + "_has"
	h := x.heap(st, hn, mi.hasSort())
	st.heaps[hn] = x.vc.def(hn, mi.hasSort(), tSto(h, m.L[0], tSto(tSel(h, m.L[0]), kk, "false")))
	cn := mi.key + "_card"
	ch := x.heap(st, cn, arrSort(sInt))
	st.heaps[cn] = x.vc.def(cn, arrSort(sInt), tSto(ch, m.L[0], tIte(had, tSub(tSel(ch, m.L[0]), "1"), tSel(ch, m.L[0]))))
}

func (fr *Frame) execLookup(st *State, in *ssa.Lookup) {
	x := fr.x
	m := fr.val(st, in.X)
	k := fr.val(st, in.Index)
	if isString(in.X.Type()) {
		// string index (s[i] on a string-typed Lookup)
		idx := k.T()
		g := tAnd(tCmp("<=", "0", idx), tCmp("<", idx, m.L[2]))
		x.obligeAssume(st, "bounds", x.w.nodeTextAt(in.Pos()), in.Pos(), g, nil, true)
		t := tSel(m.L[0], tAdd(m.L[1], idx))
		x.vc.assume(inRange(types.Typ[types.Uint8], t))
		fr.set(in, mkInt(types.Typ[types.Uint8], t))
		return
	}
	mi := x.mapInfo(in.X.Type())
	if isIface(mi.kt) && !isIface(k.Ty) {
		k = x.makeIface(st, k, mi.kt)
	}
	v, has := x.mapLookup(st, m, k)
	if in.CommaOk {
		fr.set(in, &Val{Ty: in.Type(), L: append(append([]string(nil), v.L...), has)})
		return
	}
	fr.set(in, v)
}

// range over map: the iterator cell holds [count]; the visited set lives in a
// per-iterator SMT array.
type mapIter struct {
	visited string
	m       *Val
}

func (x *Exec) rangeMapInit(st *State, c *Cell, over *Val) {
	mi := x.mapInfo(over.Ty)
	vs := "((as const (Array " + mi.ksort + " Bool)) false)"
	st.cells[c] = &Val{Ty: types.Typ[types.Int], L: []string{"0"}, X: &mapIter{visited: vs, m: over}}
}

// havocMapIter: at a loop header the set of visited keys is unknown, but it is
// a subset of the map's keys.
func (x *Exec) havocMapIter(st *State, it *mapIter) *mapIter {
	mi := x.mapInfo(it.m.Ty)
	vs := x.vc.fresh("visited", "(Array "+mi.ksort+" Bool)")
	x.vc.nfresh++
	q := fmt.Sprintf("q!%d", x.vc.nfresh)
	x.vc.assume("(forall ((" + q + " " + mi.ksort + ")) (=> (select " + vs + " " + q + ") " + tAnd(tNot(tEq(it.m.L[0], "0")), x.mapHas(st, it.m, q)) + "))")
	return &mapIter{visited: vs, m: it.m}
}

func (x *Exec) rangeMapNext(st *State, c *Cell, over *Val, tup *types.Tuple) *Val {
	mi := x.mapInfo(over.Ty)
	cur := st.cells[c]
	it, _ := cur.X.(*mapIter)
	if it == nil {
		it = x.havocMapIter(st, &mapIter{m: over})
	}
	visited := it.visited
	nonnil := tNot(tEq(over.L[0], "0"))
	ok := x.vc.fresh("mapnext", sBool)
	k := x.freshVal("mapkey", mi.kt)
	kk := x.mapKey(st, over.Ty, k)
	x.vc.assume(tImp(ok, tAnd(nonnil, x.mapHas(st, over, kk), tNot(tSel(visited, kk)))))
	x.vc.nfresh++
	q := fmt.Sprintf("q!%d", x.vc.nfresh)
	// the loop ends only when every key has been visited
	x.vc.assume(tImp(tNot(ok), "(forall (("+q+" "+mi.ksort+")) (=> "+tAnd(nonnil, x.mapHas(st, over, q))+" (select "+visited+" "+q+")))"))
	v, _ := x.mapLookup(st, over, k)
	nv := x.vc.def("visited", "(Array "+mi.ksort+" Bool)", tIte(ok, tSto(visited, kk, "true"), visited))
	st.cells[c] = &Val{Ty: types.Typ[types.Int], L: []string{"0"}, X: &mapIter{visited: nv, m: over}}
	out := &Val{Ty: tup, L: []string{ok}}
	out.L = append(out.L, k.L...)
	out.L = append(out.L, v.L...)
	return out
}
