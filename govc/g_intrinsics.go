package main

// Natively modelled library functions. Each entry is part of the trusted base
// and is listed in the evidence (`assumptions`).

import (
	"go/token"
	"go/types"

	"golang.org/x/tools/go/ssa"
)

type intrinsic func(fr *Frame, st *State, args []*Val, pos token.Pos) []*Val

var intrinsics map[string]intrinsic

var intrinsicDoc = map[string]string{}

func init() {
	intrinsics = map[string]intrinsic{}
	errT := types.Universe.Lookup("error").Type()
	newErr := func(fr *Frame, st *State, args []*Val, pos token.Pos) []*Val {
		e := fr.x.vc.fresh("err", sInt)
		fr.x.vc.assume(tCmp(">", e, "0"))
		// fresh errors are distinct from the sentinels
		fr.x.vc.assume(tCmp("<", e, "1000000"))
		return []*Val{{Ty: errT, L: []string{e}}}
	}
	for _, n := range []string{
		"errors.New", "fmt.Errorf", "github.com/pkg/errors.New", "github.com/pkg/errors.Errorf",
		modPath + "/internal/errors.New", modPath + "/internal/errors.Errorf", modPath + "/internal/errors.Fatal",
		modPath + "/internal/errors.Fatalf", "errors.Join", modPath + "/internal/errors.Join",
	} {
		intrinsics[n] = newErr
		intrinsicDoc[n] = "returns a fresh non-nil error (distinct from sentinel errors)"
	}
	// fmt.Errorf with %w keeps the wrapped error observable through errors.Is
	intrinsics["fmt.Errorf"] = func(fr *Frame, st *State, args []*Val, pos token.Pos) []*Val {
		r := newErr(fr, st, args, pos)
		// variadic args are boxed into a slice; the wrapped error is unknown here:
		// record nothing (errors.Is on the result is then undetermined)
		return r
	}
	wrap := func(fr *Frame, st *State, args []*Val, pos token.Pos) []*Val {
		x := fr.x
		e := x.vc.fresh("werr", sInt)
		in := args[0].L[0]
		x.vc.assume(tAnd(tCmp(">=", e, "0"), tEq(tEq(e, "0"), tEq(in, "0")), tCmp("<", e, "1000000")))
		x.vc.assume(tImp(tNot(tEq(in, "0")), "(unwraps_ "+e+" "+in+")"))
		x.declareUnwrapTrans()
		return []*Val{{Ty: errT, L: []string{e}}}
	}
	for _, n := range []string{"github.com/pkg/errors.Wrap", "github.com/pkg/errors.Wrapf", "github.com/pkg/errors.WithStack",
		"github.com/pkg/errors.WithMessage", modPath + "/internal/errors.Wrap", modPath + "/internal/errors.Wrapf", modPath + "/internal/errors.WithStack"} {
		intrinsics[n] = wrap
		intrinsicDoc[n] = "nil iff its argument is nil; the result wraps the argument (errors.Is sees through it)"
	}
	isFn := func(fr *Frame, st *State, args []*Val, pos token.Pos) []*Val {
		return []*Val{mkBool(fr.x.errorsIs(args[0].L[0], args[1].L[0]))}
	}
	intrinsics["errors.Is"] = isFn
	intrinsics[modPath+"/internal/errors.Is"] = isFn
	intrinsicDoc["errors.Is"] = "err != nil && (err == target || err wraps target)"

	freshStr := func(fr *Frame, st *State, args []*Val, pos token.Pos) []*Val {
		return []*Val{fr.x.freshVal("str", types.Typ[types.String])}
	}
	for _, n := range []string{"fmt.Sprintf", "fmt.Sprint", "fmt.Sprintln"} {
		intrinsics[n] = freshStr
		intrinsicDoc[n] = "returns some string; no effect"
	}
	// sort.Search(n, f): for a (loop-free, effect-free) predicate closure the
	// result r satisfies 0 <= r <= n, f(r) when r < n, and !f(r-1) when r > 0
	// (what binary search guarantees for ANY predicate; with a monotone predicate
	// this makes r the smallest index with f true). The closure body is the real
	// code, executed symbolically at r and at r-1.
	intrinsics["sort.Search"] = func(fr *Frame, st *State, args []*Val, pos token.Pos) []*Val {
		x := fr.x
		n := args[0].T()
		r := x.vc.fresh("search", sInt)
		x.vc.assume(tImp(st.pc, tAnd(tCmp("<=", "0", r), tCmp("<=", r, n))))
		res := []*Val{mkInt(types.Typ[types.Int], r)}
		cl, ok := args[1].X.(*Closure)
		if !ok || cl.fn.Blocks == nil || hasLoop(cl.fn) {
			x.vc.diag("%s: sort.Search with a predicate that is not a loop-free closure: only 0 <= r <= n is known", fr.fn.String())
			return res
		}
		probe := func(guard, at string, want bool) {
			s2 := st.clone()
			s2.pc = x.vc.def("pc", sBool, tAnd(st.pc, guard))
			saved := x.vc.pcNow
			x.vc.pcNow = s2.pc
			x.noObl++
			vals := fr.inlineCall(s2, cl.fn, cl.bindings, []*Val{mkInt(types.Typ[types.Int], at)}, pos)
			x.noObl--
			x.vc.pcNow = saved
			if len(vals) == 1 && s2.pc != "false" {
				t := vals[0].T()
				if !want {
					t = tNot(t)
				}
				x.vc.assume(tImp(s2.pc, t))
			}
		}
		probe(tCmp("<", r, n), r, true)
		probe(tCmp(">", r, "0"), tSub(r, "1"), false)
		return res
	}
	intrinsicDoc["sort.Search"] = "binary search: 0 <= r <= n, f(r) if r < n, !f(r-1) if r > 0 (the predicate closure is executed symbolically at both points; it must be loop-free and effect-free)"
	noop := func(fr *Frame, st *State, args []*Val, pos token.Pos) []*Val { return nil }
	for _, n := range []string{modPath + "/internal/debug.Log", "(*sync.Mutex).Lock", "(*sync.Mutex).Unlock", "(*sync.RWMutex).Lock",
		"(*sync.RWMutex).Unlock", "(*sync.RWMutex).RLock", "(*sync.RWMutex).RUnlock", "runtime.GC", "(*sync.WaitGroup).Add", "(*sync.WaitGroup).Done"} {
		intrinsics[n] = noop
		intrinsicDoc[n] = "no effect on the sequential model"
	}

	le := func(width int) intrinsic {
		return func(fr *Frame, st *State, args []*Val, pos token.Pos) []*Val {
			x := fr.x
			b := args[len(args)-1]
			x.obligeAssume(st, "bounds", "binary.LittleEndian.Uint: "+x.w.nodeTextAt(pos), pos, tCmp(">=", b.L[2], num(int64(width))), nil, true)
			s := x.seqOf(st, b)
			t := "0"
			mul := int64(1)
			for i := 0; i < width; i++ {
				by := tSel(s[0], tAdd(s[1], num(int64(i))))
				x.vc.assume(inRange(types.Typ[types.Uint8], by))
				t = tAdd(t, tMul(by, pow2(uint(8*i)).String()))
				_ = mul
			}
			var rt types.Type = types.Typ[types.Uint32]
			switch width {
			case 2:
				rt = types.Typ[types.Uint16]
			case 8:
				rt = types.Typ[types.Uint64]
			}
			return []*Val{mkInt(rt, x.vc.def("le", sInt, t))}
		}
	}
	intrinsics["(encoding/binary.littleEndian).Uint32"] = le(4)
	intrinsics["(encoding/binary.littleEndian).Uint16"] = le(2)
	intrinsics["(encoding/binary.littleEndian).Uint64"] = le(8)
	intrinsicDoc["(encoding/binary.littleEndian).Uint32"] = "b[0] + b[1]<<8 + b[2]<<16 + b[3]<<24; panics unless len(b) >= 4"

	put := func(width int) intrinsic {
		return func(fr *Frame, st *State, args []*Val, pos token.Pos) []*Val {
			x := fr.x
			b := args[len(args)-2]
			v := args[len(args)-1].T()
			x.obligeAssume(st, "bounds", "binary.LittleEndian.PutUint: "+x.w.nodeTextAt(pos), pos, tCmp(">=", b.L[2], num(int64(width))), nil, true)
			et := sliceElem(b.Ty)
			hn := "A_" + typeKey(et) + "_"
			hs := arrSort(sArrI)
			h := x.heap(st, hn, hs)
			arr := tSel(h, b.L[0])
			for i := 0; i < width; i++ {
				byt := "(mod (div " + v + " " + pow2(uint(8*i)).String() + ") 256)"
				arr = tSto(arr, tAdd(b.L[1], num(int64(i))), byt)
			}
			st.heaps[hn] = x.vc.def(hn, hs, tSto(h, b.L[0], arr))
			fr.sliceWriteFrame(st, b, pos, "PutUint")
			x.writeBack(st, b)
			return nil
		}
	}
	intrinsics["(encoding/binary.littleEndian).PutUint32"] = put(4)
	intrinsics["(encoding/binary.littleEndian).PutUint16"] = put(2)
	intrinsics["(encoding/binary.littleEndian).PutUint64"] = put(8)
	intrinsicDoc["(encoding/binary.littleEndian).PutUint32"] = "writes the 4 little-endian bytes of v to b[0:4]; panics unless len(b) >= 4"

	appendLE := func(width int) intrinsic {
		return func(fr *Frame, st *State, args []*Val, pos token.Pos) []*Val {
			x := fr.x
			b := args[len(args)-2]
			v := args[len(args)-1].T()
			et := sliceElem(b.Ty)
			r := x.allocBacking(st, et)
			hn := "A_" + typeKey(et) + "_"
			hs := arrSort(sArrI)
			h := x.heap(st, hn, hs)
			arr := tSel(h, r)
			for i := 0; i < width; i++ {
				arr = tSto(arr, num(int64(i)), "(mod (div "+v+" "+pow2(uint(8*i)).String()+") 256)")
			}
			st.heaps[hn] = x.vc.def(hn, hs, tSto(h, r, arr))
			tmp := &Val{Ty: b.Ty, L: []string{r, "0", num(int64(width)), num(int64(width))}}
			return []*Val{fr.doAppend(st, b, tmp, pos)}
		}
	}
	intrinsics["(encoding/binary.littleEndian).AppendUint32"] = appendLE(4)
	intrinsics["(encoding/binary.littleEndian).AppendUint16"] = appendLE(2)
	intrinsics["(encoding/binary.littleEndian).AppendUint64"] = appendLE(8)
	intrinsicDoc["(encoding/binary.littleEndian).AppendUint32"] = "append(b, the 4 little-endian bytes of v)"

	intrinsics["math/bits.Mul64"] = func(fr *Frame, st *State, args []*Val, pos token.Pos) []*Val {
		x := fr.x
		p := x.vc.def("mul64", sInt, tMul(args[0].T(), args[1].T()))
		m := pow2(64).String()
		u64 := types.Typ[types.Uint64]
		return []*Val{mkInt(u64, "(div "+p+" "+m+")"), mkInt(u64, "(mod "+p+" "+m+")")}
	}
	intrinsicDoc["math/bits.Mul64"] = "(hi, lo) = ((x*y) div 2^64, (x*y) mod 2^64)"

	intrinsics["bytes.Equal"] = func(fr *Frame, st *State, args []*Val, pos token.Pos) []*Val {
		x := fr.x
		return []*Val{mkBool(x.seqEq(x.seqOf(st, args[0]), x.seqOf(st, args[1]), nil, nil))}
	}
	intrinsicDoc["bytes.Equal"] = "same length and same bytes"

	intrinsics["strings.HasPrefix"] = func(fr *Frame, st *State, args []*Val, pos token.Pos) []*Val {
		x := fr.x
		s, p := args[0], args[1]
		pre := []string{s.L[0], s.L[1], p.L[2]}
		return []*Val{mkBool(tAnd(tCmp(">=", s.L[2], p.L[2]), x.seqEq(pre, p.L, nil, litOf(p))))}
	}
	intrinsicDoc["strings.HasPrefix"] = "len(s) >= len(p) && s[:len(p)] == p"
}

func (x *Exec) declareUnwrapTrans() {}

func (x *Exec) intrinsicEffects(name string, c *ssa.CallCommon) callEff {
	var e callEff
	switch name {
	case "(encoding/binary.littleEndian).PutUint32", "(encoding/binary.littleEndian).PutUint16", "(encoding/binary.littleEndian).PutUint64":
		e.heaps = append(e.heaps, "A_uint8")
	}
	return e
}
