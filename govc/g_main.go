package main

import (
	"regexp"
	"encoding/json"
	"flag"
	"fmt"
	"os"
	"path/filepath"
	"sort"
	"strconv"
	"strings"
	"time"
)

type PropMap struct {
	Packages []string `json:"packages"`
	Note     string   `json:"note,omitempty"`
	Decides  string   `json:"decides,omitempty"`
	NotCovered string `json:"not_covered,omitempty"`
	Assumes  []string `json:"assumes,omitempty"`
}

type Baseline struct {
	Property      string   `json:"property"`
	Obligations   []string `json:"obligations"`
	ConditionalOn []string `json:"conditional_on,omitempty"` // assumed checks generated but not discharged when the baseline was taken
	NotClaimed    []string `json:"not_claimed,omitempty"`    // other generated obligations that did not discharge
}

type KnownFindings struct {
	Findings []Finding `json:"findings"`
	Fixed    []Finding `json:"fixed"`
}

// DeadPath: a return / loop body that is unreachable for a stated, reviewed
// reason (so that the reachability check can tell it from a vacuity hole).
type DeadPath struct {
	ID     string `json:"id"`
	Reason string `json:"reason"`
}

type Finding struct {
	Property   string `json:"property"`
	Obligation string `json:"obligation"`
	What       string `json:"what"`
	Commit     string `json:"commit,omitempty"`
}

func main() {
	if len(os.Args) < 2 {
		fmt.Fprintln(os.Stderr, "usage: govc check|baseline|fn ...")
		os.Exit(2)
	}
	switch os.Args[1] {
	case "check", "baseline":
		os.Exit(cmdCheck(os.Args[1] == "baseline", os.Args[2:]))
	case "fn":
		os.Exit(cmdFn(os.Args[2:]))
	case "desugar":
		s, err := desugar(strings.Join(os.Args[2:], " "))
		fmt.Println(s, err)
	default:
		fmt.Fprintln(os.Stderr, "unknown command", os.Args[1])
		os.Exit(2)
	}
}

func cmdFn(argv []string) int {
	fs := flag.NewFlagSet("fn", flag.ExitOnError)
	repo := fs.String("repo", "/repo", "repository")
	verif := fs.String("verif", "/verif", "verif dir")
	timeout := fs.Int("timeout", 10, "solver timeout (s)")
	keep := fs.Bool("keep", false, "keep SMT files")
	verbose := fs.Bool("v", false, "verbose diagnostics")
	all := fs.Bool("all", false, "run all solvers")
	fs.Parse(argv)
	args := fs.Args()
	if len(args) < 2 {
		fmt.Fprintln(os.Stderr, "usage: govc fn [flags] <pkg pattern> <func key>...")
		return 2
	}
	pats := strings.Split(args[0], ",")
	w, err := loadWorld(*repo, pats, filepath.Join(*verif, "contracts", "external"))
	if err != nil {
		fmt.Fprintln(os.Stderr, "load:", err)
		return 2
	}
	w.verbose = *verbose
	pkgPath := modPath + "/" + strings.TrimPrefix(pats[0], "./")
	work, _ := os.MkdirTemp("", "govc-fn-")
	if !*keep {
		defer os.RemoveAll(work)
	} else {
		fmt.Println("work dir:", work)
	}
	rc := 0
	for _, key := range args[1:] {
		var res *FuncResult
		if strings.HasPrefix(key, "bvlemma:") {
			// fn <pkg> bvlemma:NAME
			for _, cf := range w.cfiles {
				for _, l := range cf.BVLemmas {
					if cf.PkgPath == pkgPath && l.Label == strings.TrimPrefix(key, "bvlemma:") {
						res = w.proveBVLemma(cf, l)
					}
				}
			}
			if res == nil {
				for _, cf := range w.cfiles {
					fmt.Println("  contract file", cf.PkgPath, len(cf.BVLemmas), "bvlemmas")
				}
				fmt.Println("UNBOUND", key)
				rc = 2
				continue
			}
		}
		full := w.fullFuncName(pkgPath, key)
		fn := w.findFunction(full)
		if fn == nil && res == nil {
			fmt.Println("UNBOUND", full)
			rc = 2
			continue
		}
		if res == nil {
			c := w.contractFor(fn)
			if c == nil {
				c = &FuncContract{Key: key, PkgPath: pkgPath, Inv: map[int][]*Clause{}, Dec: map[int]*Clause{}, NoPanic: true}
			}
			res = w.verifyFunc(fn, c)
		}
		if res.Err != "" {
			fmt.Println("ERROR", res.Err)
			rc = 2
		}
		for _, d := range res.Diags {
			fmt.Println("  diag:", d)
		}
		solveAll(res.VC.obls, SolverCfg{WorkDir: work, TimeoutS: *timeout, KeepFiles: *keep, All: *all})
		solveAll(res.VC.covers, SolverCfg{WorkDir: filepath.Join(work, "covers"), TimeoutS: 3, KeepFiles: *keep})
		for _, o := range res.VC.covers {
			if o.Status == "unsat" {
				fmt.Printf("  VACUOUS  unreachable: %s (%s:%d)\n", o.ID, filepath.Base(o.Pos.Filename), o.Pos.Line)
				rc = 2
			}
		}
		for _, o := range res.VC.obls {
			fmt.Printf("  %-8s %-7s %5.2fs  %s\n", o.Status, o.Solver, o.Secs, o.ID)
			if o.Status != "unsat" {
				rc = 1
				if len(o.Model) > 0 {
					ks := sortedKeys(o.Model)
					for _, k := range ks {
						fmt.Printf("      %s = %s\n", k, o.Model[k])
					}
				}
				if o.Status == "error" || *verbose {
					fmt.Println(indent(o.Output, "      "))
				}
			}
		}
	}
	return rc
}

func indent(s, p string) string {
	return p + strings.ReplaceAll(strings.TrimRight(s, "\n"), "\n", "\n"+p)
}

func contains(xs []string, s string) bool {
	for _, x := range xs {
		if x == s {
			return true
		}
	}
	return false
}

func reachTagged(c *FuncContract, prop string) bool {
	for _, rc := range c.Reach {
		if contains(rc.Clause.Tags, prop) {
			return true
		}
	}
	return false
}

func clauseTagged(c *FuncContract, prop string) bool {
	if contains(c.NPTags, prop) {
		return true
	}
	all := append(append(append([]*Clause{}, c.Requires...), c.Ensures...), c.Crash...)
	for _, cs := range c.Inv {
		all = append(all, cs...)
	}
	for _, d := range c.Dec {
		all = append(all, d)
	}
	for _, rc := range c.Reach {
		all = append(all, rc.Clause)
	}
	all = append(all, c.Sends...)
	for _, cl := range all {
		if contains(cl.Tags, prop) {
			return true
		}
	}
	return false
}

func cmdCheck(writeBaseline bool, argv []string) int {
	fs := flag.NewFlagSet("check", flag.ExitOnError)
	repo := fs.String("repo", "/repo", "repository")
	verif := fs.String("verif", "/verif", "verif dir")
	tier := fs.String("tier", "quick", "quick|thorough")
	keep := fs.Bool("keep", false, "keep SMT files")
	verbose := fs.Bool("v", false, "verbose")
	replayOnly := fs.String("replay", "", "re-run a recorded replay")
	noEvidence := fs.Bool("noevidence", false, "do not write evidence/replay files under /verif (selftest runs)")
	fs.Parse(argv)
	if fs.NArg() < 1 {
		fmt.Fprintln(os.Stderr, "usage: govc check <property>")
		return 2
	}
	prop := fs.Arg(0)
	if *replayOnly != "" {
		return runReplayFile(*repo, *replayOnly)
	}
	t0 := time.Now()
	seed := int64(0)
	if s := os.Getenv("VERIF_SEED"); s != "" {
		seed, _ = strconv.ParseInt(s, 10, 64)
	}
	if t := os.Getenv("VERIF_TIER"); t != "" && *tier == "quick" && (t == "quick" || t == "thorough") {
		*tier = t
	}
	var pm map[string]PropMap
	if err := readJSON(filepath.Join(*verif, "properties.map.json"), &pm); err != nil {
		fmt.Fprintln(os.Stderr, err)
		return 2
	}
	p, ok := pm[prop]
	if !ok {
		fmt.Fprintf(os.Stderr, "property %s is not claimed (see MANIFEST not_applicable)\n", prop)
		return 2
	}
	w, err := loadWorld(*repo, p.Packages, filepath.Join(*verif, "contracts", "external"))
	if err != nil {
		fmt.Fprintln(os.Stderr, "load:", err)
		return 2
	}
	w.verbose = *verbose
	w.writingBaseline = writeBaseline
	loadS := time.Since(t0).Seconds()

	var results []*FuncResult
	var unbound []string
	var funcs []string
	npFor := map[string]bool{}
	for _, cf := range w.cfiles {
		if _, loaded := w.pkgs[cf.PkgPath]; !loaded {
			continue
		}
		for _, c := range cf.Funcs {
			// a trusted summary may still carry gates: they are verified on the
			// body (the postconditions stay assumed)
			if c.merged {
				continue // verified once, through the block its clauses were merged into
			}
			if (c.Trusted && !reachTagged(c, prop)) || !clauseTagged(c, prop) {
				continue
			}
			full := w.fullFuncName(cf.PkgPath, c.Key)
			fn := w.findFunction(full)
			if fn == nil {
				unbound = append(unbound, full)
				continue
			}
			res := w.verifyFunc(fn, c)
			results = append(results, res)
			funcs = append(funcs, shortName(full))
			if c.NoPanic && (len(c.NPTags) == 0 || contains(c.NPTags, prop)) {
				npFor[shortName(full)] = true
				npFor[shortName(fn.String())] = true // instance of a generic function
			}
			if strings.HasPrefix(res.Err, "binding") {
				unbound = append(unbound, full+": "+res.Err)
			} else if res.Err != "" {
				fmt.Fprintf(os.Stderr, "ENGINE-ERROR %s: %s\n", full, res.Err)
			}
		}
		for _, l := range cf.BVLemmas {
			if contains(l.Tags, prop) {
				res := w.proveBVLemma(cf, l)
				results = append(results, res)
				funcs = append(funcs, shortName(res.Name))
				if strings.HasPrefix(res.Err, "binding") {
					unbound = append(unbound, res.Name+": "+res.Err)
				}
			}
		}
		for _, l := range cf.Lemmas {
			if contains(l.Tags, prop) {
				res := w.verifyLemma(cf, l)
				results = append(results, res)
				funcs = append(funcs, shortName(res.Name))
				if strings.HasPrefix(res.Err, "binding") {
					unbound = append(unbound, res.Name+": "+res.Err)
				}
			}
		}
	}
	var obls []*Obl
	var covers []*Obl
	for _, r := range results {
		covers = append(covers, r.VC.covers...)
		for _, o := range r.VC.obls {
			if len(o.Tags) > 0 && !contains(o.Tags, prop) {
				continue
			}
			if o.Safety && !npFor[o.Func] {
				continue
			}
			obls = append(obls, o)
		}
	}
	genS := time.Since(t0).Seconds() - loadS
	work, _ := os.MkdirTemp("", "govc-"+prop+"-")
	defer func() {
		if !*keep {
			os.RemoveAll(work)
		} else {
			fmt.Println("work dir:", work)
		}
	}()
	to := 10
	if *tier == "thorough" {
		to = 60
	}
	// quick tier: solve what is claimed (baseline), what is watched (known or
	// repaired findings), and - when a baseline obligation is no longer
	// generated - the new obligations of the same function and kind that may
	// have replaced it. The baseline command and the thorough tier solve all.
	toSolve := obls
	if !writeBaseline && *tier != "thorough" {
		var bl0 Baseline
		readJSON(filepath.Join(*verif, "baseline", prop+".json"), &bl0)
		var kf0 KnownFindings
		readJSON(filepath.Join(*verif, "known_findings.json"), &kf0)
		want := map[string]bool{}
		for _, id := range bl0.Obligations {
			want[id] = true
		}
		for _, f := range append(append([]Finding{}, kf0.Findings...), kf0.Fixed...) {
			if f.Property == prop {
				want[f.Obligation] = true
			}
		}
		have := map[string]bool{}
		for _, o := range obls {
			have[o.ID] = true
		}
		missingFK := map[string]bool{}
		for _, id := range bl0.Obligations {
			if !have[id] {
				missingFK[funcKindOf(id)] = true
			}
		}
		gateStem := map[string]bool{}
		for _, id := range bl0.Obligations {
			gateStem[idStem(id)] = true
		}
		// frame obligations that did not exist when the baseline was taken are
		// new writes: solved, so that a write outside a claimed frame is noticed
		knownNotClaimed := map[string]bool{}
		for _, nc := range bl0.NotClaimed {
			if i := strings.LastIndex(nc, " ["); i > 0 {
				knownNotClaimed[nc[:i]] = true
			}
		}
		toSolve = nil
		for _, o := range obls {
			if want[o.ID] || missingFK[o.Func+"#"+o.Kind] || (o.Kind == "frame" && !knownNotClaimed[o.ID]) || (o.Kind == "reach" && strings.HasSuffix(o.Text, " only_if false")) || ((o.Kind == "reach" || o.Kind == "send" || o.Kind == "inv-pres" || o.Kind == "inv-entry" || o.Kind == "cb-pres" || o.Kind == "cb-entry") && gateStem[idStem(o.ID)]) {
				toSolve = append(toSolve, o)
			}
		}
	}
	solveAll(toSolve, SolverCfg{WorkDir: work, TimeoutS: to, All: *tier == "thorough", KeepFiles: *keep})

	// machine load must not turn into alarms: undecided obligations get one
	// more attempt with four times the budget and less parallelism
	var retry []*Obl
	for _, o := range toSolve {
		if o.Status == "timeout" || o.Status == "unknown" {
			o.Status, o.Solver = "", ""
			retry = append(retry, o)
		}
	}
	if len(retry) > 0 {
		solveAll(retry, SolverCfg{WorkDir: filepath.Join(work, "retry"), TimeoutS: to * 4, All: false, KeepFiles: *keep, Workers: 5})
	}
	solveAll(covers, SolverCfg{WorkDir: filepath.Join(work, "covers"), TimeoutS: 3, KeepFiles: *keep})
	var vacuous []string
	var dead []DeadPath
	readJSON(filepath.Join(*verif, "dead_paths.json"), &dead)
	acceptedDead := map[string]bool{}
	for _, d := range dead {
		acceptedDead[d.ID] = true
	}
	var deadAccepted []string
	for _, o := range covers {
		if o.Status == "unsat" {
			isDead := acceptedDead[o.ID]
			for _, d := range dead {
				// multi-line statements: the entry may give the first line only
				if !isDead && strings.HasSuffix(d.ID, "{") && strings.HasPrefix(o.ID, d.ID) {
					isDead = true
				}
			}
			if isDead {
				deadAccepted = append(deadAccepted, o.ID)
			} else {
				vacuous = append(vacuous, o.ID)
			}
		}
	}
	blFile := filepath.Join(*verif, "baseline", prop+".json")
	if writeBaseline {
		var ids []string
		// An obligation that is assumed after being asserted (loop invariants,
		// callee preconditions, bounds/nil/div checks) and does not discharge
		// taints what was proved under it: a failed invariant taints its whole
		// function, the others every later obligation of the function.
		taintAll := map[string]string{}
		taintFrom := map[string]int{}
		for _, r := range results {
			for i, o := range r.VC.obls {
				if o.Status == "unsat" || o.Status == "" {
					continue
				}
				switch o.Kind {
				case "inv-entry", "inv-pres":
					taintAll[o.Func] = o.ID
				case "requires", "bounds", "nil", "div0", "typeassert":
					// later obligations are proved for the executions that pass this
					// check (standard assert-then-assume); reported as conditional_on
					_ = i
				}
			}
		}
		pos := map[*Obl]int{}
		for _, r := range results {
			for i, o := range r.VC.obls {
				pos[o] = i
			}
		}
		for _, o := range obls {
			tainted := ""
			if id, ok := taintAll[o.Func]; ok {
				tainted = "undischarged invariant " + id
			} else if from, ok := taintFrom[o.Func]; ok && pos[o] > from {
				tainted = "follows an undischarged assumed check"
			}
			if o.Status == "unsat" && o.Secs < 6 && tainted == "" {
				ids = append(ids, o.ID)
			} else if tainted != "" && o.Status == "unsat" {
				fmt.Printf("TAINTED (%s): %s\n", tainted, o.ID)
			} else {
				fmt.Printf("not in baseline: %-8s %5.2fs %s\n", o.Status, o.Secs, o.ID)
			}
		}
		sort.Strings(ids)
		os.MkdirAll(filepath.Dir(blFile), 0o755)
		inB := map[string]bool{}
		for _, id := range ids {
			inB[id] = true
		}
		var notClaimed []string
		for _, o := range obls {
			if !inB[o.ID] {
				notClaimed = append(notClaimed, fmt.Sprintf("%s [%s]", o.ID, o.Status))
			}
			if inB[o.ID] && o.Secs > 3 {
				fmt.Printf("SLOW %5.2fs %s\n", o.Secs, o.ID)
			}
		}
		writeJSON(blFile, Baseline{Property: prop, Obligations: ids, ConditionalOn: conditionalOn(results, inB), NotClaimed: notClaimed})
		fmt.Printf("baseline %s: %d obligations (of %d generated)\n", prop, len(ids), len(obls))
		for _, u := range unbound {
			fmt.Println("UNBOUND", u)
		}
		for _, v := range vacuous {
			fmt.Println("VACUOUS (unreachable under the assumptions):", v)
		}
		return 0
	}
	var bl Baseline
	if err := readJSON(blFile, &bl); err != nil {
		fmt.Fprintln(os.Stderr, "baseline:", err)
		return 2
	}
	var kf KnownFindings
	readJSON(filepath.Join(*verif, "known_findings.json"), &kf)

	byID := map[string]*Obl{}
	for _, o := range obls {
		byID[o.ID] = o
	}
	inBL := map[string]bool{}
	for _, id := range bl.Obligations {
		inBL[id] = true
	}
	known := map[string]Finding{}
	for _, f := range kf.Findings {
		if f.Property == prop {
			known[f.Obligation] = f
		}
	}
	// repaired findings stay watched: if their obligation ever fails again it is
	// reported, baseline or not
	watched := map[string]bool{}
	for _, f := range kf.Fixed {
		if f.Property == prop {
			watched[f.Obligation] = true
		}
	}
	type viol struct {
		o      *Obl
		id     string
		reason string
	}
	var viols []viol
	discharged := 0
	bySolver := map[string]int{}
	solverSecs := 0.0
	missingByFuncKind := map[string][]string{}
	if os.Getenv("GOVC_DUMP") != "" {
		for _, o := range obls {
			fmt.Printf("DUMP %-8s %s\n", o.Status, o.ID)
		}
	}
	for _, id := range bl.Obligations {
		o := byID[id]
		if o == nil {
			fk := funcKindOf(id)
			missingByFuncKind[fk] = append(missingByFuncKind[fk], id)
			continue
		}
		solverSecs += o.Secs
		if o.Status == "unsat" {
			discharged++
			bySolver[o.Solver]++
			continue
		}
		viols = append(viols, viol{o, id, o.Status})
	}
	notClaimedAtBaseline := map[string]bool{}
	for _, nc := range bl.NotClaimed {
		if i := strings.LastIndex(nc, " ["); i > 0 {
			notClaimedAtBaseline[nc[:i]] = true
		}
	}
	// functions whose frame was intact when the baseline was taken (no frame
	// obligation among the not-claimed ones)
	contractOfFunc := map[string]*FuncContract{}
	framedAtBaseline := map[string]bool{}
	for _, r := range results {
		if r.Contract != nil {
			contractOfFunc[shortName(r.Name)] = r.Contract
			framedAtBaseline[shortName(r.Name)] = true
		}
	}
	for nc := range notClaimedAtBaseline {
		if strings.Contains(nc, "#frame#") {
			framedAtBaseline[nc[:strings.Index(nc, "#frame#")]] = false
		}
	}
	// baseline obligations that vanished: acceptable only if the obligations
	// that replaced them (same function and kind) all discharge
	var undecided []string
	for _, o := range obls {
		if inBL[o.ID] {
			continue
		}
		solverSecs += o.Secs
		if o.Status == "unsat" || o.Status == "" {
			continue
		}
		fk := o.Func + "#" + o.Kind
		if _, isKnown := known[o.ID]; isKnown {
			// a listed open finding: reported on every run (KNOWN-FINDING line)
			viols = append(viols, viol{o, o.ID, o.Status})
			continue
		}
		if notClaimedAtBaseline[o.ID] {
			// already undischarged when the baseline was taken: not a regression
			continue
		}
		if len(missingByFuncKind[fk]) > 0 {
			viols = append(viols, viol{o, o.ID, o.Status + " (replaces baseline obligation " + missingByFuncKind[fk][0] + ")"})
		} else if o.Kind == "reach" && strings.HasSuffix(o.Text, " only_if false") {
			// `never "call:NAME"`: the call exists now
			viols = append(viols, viol{o, o.ID, o.Status + " (a call the contract forbids)"})
		} else if fc := contractOfFunc[o.Func]; o.Kind == "frame" && fc != nil && fc.HasAssigns && !fc.Trusted && clauseTagged(fc, prop) && framedAtBaseline[o.Func] {
			// the function's assigns clause is part of its claimed contract and
			// every write it made when the baseline was taken stayed inside it:
			// a new write outside the frame is a new instance of that clause
			viols = append(viols, viol{o, o.ID, o.Status + " (write outside the claimed frame of " + o.Func + ")"})
		} else if (o.Kind == "reach" || o.Kind == "send" || o.Kind == "inv-pres" || o.Kind == "inv-entry" || o.Kind == "cb-pres" || o.Kind == "cb-entry") && inBL[idStem(o.ID)] {
			// a gate clause that is claimed applies to every statement it matches:
			// a new matching statement is a new instance of the claimed clause
			viols = append(viols, viol{o, o.ID, o.Status + " (new statement matched by the claimed gate " + idStem(o.ID) + ")"})
		} else if _, isKnown := known[o.ID]; isKnown {
			viols = append(viols, viol{o, o.ID, o.Status})
		} else if watched[o.ID] {
			viols = append(viols, viol{o, o.ID, o.Status + " (a repaired finding has returned)"})
		} else {
			undecided = append(undecided, fmt.Sprintf("%s [%s]", o.ID, o.Status))
		}
	}
	missingCount := 0
	for fk, ids := range missingByFuncKind {
		// were they replaced by discharged ones? count replaced obligations as discharged renames
		replaced := 0
		for _, o := range obls {
			if !inBL[o.ID] && o.Func+"#"+o.Kind == fk && o.Status == "unsat" {
				replaced++
			}
		}
		if replaced >= len(ids) {
			discharged += len(ids)
			continue
		}
		// contract-clause obligations never vanish for a harmless reason
		k := fk[strings.LastIndex(fk, "#")+1:]
		if k == "ensures" || k == "inv-entry" || k == "inv-pres" || k == "requires" || k == "crash" || k == "lemma" {
			for _, id := range ids {
				viols = append(viols, viol{nil, id, "obligation no longer generated"})
			}
		} else {
			missingCount += len(ids) - replaced
			discharged += replaced
		}
	}

	rc := 0
	nviol := 0
	replayDir := filepath.Join(*verif, "replay", prop)
	if *noEvidence {
		replayDir = filepath.Join(work, "replay")
	}
	var knownLines []string
	for _, v := range viols {
		if f, ok := known[v.id]; ok {
			knownLines = append(knownLines, fmt.Sprintf("KNOWN-FINDING: property=%s %s [%s]", prop, f.What, v.id))
			continue
		}
		nviol++
		os.MkdirAll(replayDir, 0o755)
		path := filepath.Join(replayDir, fileSafe.ReplaceAllString(v.id, "_"))
		if len(path) > 200 {
			path = path[:200]
		}
		path += ".json"
		suffix := writeReplay(w, *repo, path, prop, v.id, v.reason, v.o)
		fmt.Printf("VIOLATION property=%s replay=%s obligation=%q status=%s%s\n", prop, path, v.id, v.reason, suffix)
		rc = 1
	}
	for _, l := range knownLines {
		fmt.Println(l)
	}
	for _, u := range unbound {
		fmt.Println("UNBOUND", u)
		if rc == 0 {
			rc = 2
		}
	}
	for _, v := range vacuous {
		fmt.Println("VACUOUS unreachable:", v)
		if rc == 0 {
			rc = 2
		}
	}
	if missingCount > 0 {
		fmt.Printf("NOTE %d baseline safety obligations are no longer generated (code changed shape); not counted\n", missingCount)
	}
	if *verbose {
		for _, u := range undecided {
			fmt.Println("UNDECIDED new-obligation", u)
		}
		for _, r := range results {
			for _, d := range r.Diags {
				fmt.Println("diag:", d)
			}
		}
	}
	// evidence
	ev := map[string]any{
		"property_id": prop,
		"tier":        *tier,
		"seed":        seed,
		"level":       "proof",
		"wall_s":      time.Since(t0).Seconds(),
		"violations":  nviol,
	}
	var samples []any
	for i, id := range bl.Obligations {
		if i%maxInt(1, len(bl.Obligations)/6) == 0 {
			if o := byID[id]; o != nil {
				samples = append(samples, map[string]any{"obligation": id, "kind": o.Kind, "status": o.Status, "solver": o.Solver, "secs": round3(o.Secs),
					"at": fmt.Sprintf("%s:%d", relPath(*repo, o.Pos.Filename), o.Pos.Line), "goal_chars": len(o.Goal), "vc_lines": o.N})
			}
		}
	}
	assumptions, trusted := w.assumptionList(results)
	assumptions = append(assumptions, p.Assumes...)
	bounded := []string{}
	for _, o := range obls {
		if o.Bounded > 0 {
			bounded = append(bounded, fmt.Sprintf("%s (unroll %d)", o.ID, o.Bounded))
		}
	}
	ev["coverage"] = map[string]any{
		"obligations":              len(bl.Obligations) - missingCount,
		"baseline_obligations_not_generated": missingCount,
		"discharged":               discharged,
		"checker_cmd":              "govc check " + prop + " --tier " + *tier + "  (VCs from go/ssa of /repo's working tree; solvers z3-new 5.1.0, z3 4.8.12, cvc5 1.0.3)",
		"trusted_base":             trusted,
		"functions_under_contract": funcs,
		"generated_obligations":    len(obls),
		"reachability_covers":      len(covers),
		"vacuous_paths":            vacuous,
		"conditional_on":           bl.ConditionalOn,
		"not_claimed":              bl.NotClaimed,
		"accepted_dead_paths":      deadAccepted,
		"undecided_not_claimed":    undecided,
		"by_solver":                bySolver,
		"solver_seconds":           round3(solverSecs),
		"load_seconds":             round3(loadS),
		"vcgen_seconds":            round3(genS),
		"integers":                 "mathematical Int with exact Go wrap-around (ite/mod); no-wrap is an obligation, never an assumption",
		"bounded":                  bounded,
		"samples":                  samples,
		"known_findings":           knownLines,
		"decides":                  p.Decides,
		"not_covered":              p.NotCovered,
		"dropped_by_translation":   droppedByTranslation,
	}
	ev["assumptions"] = assumptions
	if !*noEvidence {
		os.MkdirAll(filepath.Join(*verif, "evidence"), 0o755)
		writeJSON(filepath.Join(*verif, "evidence", prop+".json"), ev)
	}
	fmt.Printf("%s: %d/%d baseline obligations discharged, %d generated, %d functions, %.1fs (load %.1fs)\n", prop, discharged, len(bl.Obligations), len(obls), len(funcs), time.Since(t0).Seconds(), loadS)
	return rc
}

var droppedByTranslation = []string{
	"debug.Log and message formatting: effect-free, results unconstrained",
	"sync.Mutex/RWMutex/WaitGroup: no-ops (sequential model)",
	"go statements: spawned function not executed in the caller",
	"interface and function-value calls without a contract: results and reachable memory unconstrained",
	"floating point: opaque values",
	"any instruction outside the subset: fresh value and all heaps forgotten (obligations downstream can only fail to discharge)",
}

// conditionalOn: assumed checks (callee preconditions, bounds, nil, division)
// that are generated but not discharged: the obligations after them in the
// same function are proved only for executions that pass these checks.
func conditionalOn(results []*FuncResult, inBL map[string]bool) []string {
	var out []string
	for _, r := range results {
		for _, o := range r.VC.obls {
			if o.Status == "" || o.Status == "unsat" || inBL[o.ID] {
				continue
			}
			switch o.Kind {
			case "requires", "bounds", "nil", "div0", "typeassert":
				out = append(out, o.ID)
			}
		}
	}
	return out
}

func funcKindOf(id string) string {
	parts := strings.SplitN(id, "#", 3)
	if len(parts) < 2 {
		return id
	}
	return parts[0] + "#" + parts[1]
}

func maxInt(a, b int) int {
	if a > b {
		return a
	}
	return b
}

func round3(f float64) float64 { return float64(int(f*1000+0.5)) / 1000 }

func relPath(base, p string) string {
	if r, err := filepath.Rel(base, p); err == nil {
		return r
	}
	return p
}

func readJSON(path string, v any) error {
	b, err := os.ReadFile(path)
	if err != nil {
		return err
	}
	return json.Unmarshal(b, v)
}

func writeJSON(path string, v any) error {
	b, err := json.MarshalIndent(v, "", " ")
	if err != nil {
		return err
	}
	return os.WriteFile(path, append(b, '\n'), 0o644)
}

// assumptionList: every trusted contract, intrinsic and axiom the run relied on.
func (w *World) assumptionList(results []*FuncResult) (assumptions []string, trusted []string) {
	seen := map[string]bool{}
	add := func(s string) {
		if !seen[s] {
			seen[s] = true
			assumptions = append(assumptions, s)
		}
	}
	for name, c := range w.contracts {
		if c.Trusted && c.used {
			add("trusted contract (assumed, not checked): " + name)
		}
		if !c.Trusted && c.used {
			for _, e := range c.Requires {
				if e.Assumed {
					add("assumed fact about the inputs (assumed in the body, not demanded of callers): " + name + ": " + e.Text)
				}
			}
			for _, e := range c.Ensures {
				if e.Assumed {
					add("assumed postcondition (used by callers, not checked on the body): " + name + ": " + e.Text)
				}
			}
		}
	}
	for _, cf := range w.cfiles {
		for _, a := range cf.Axioms {
			add("axiom " + a.Label + ": " + a.Text)
		}
	}
	for _, r := range results {
		for _, d := range r.Diags {
			if strings.Contains(d, "havoc") || strings.Contains(d, "unsupported") || strings.Contains(d, "go statement") || strings.Contains(d, "assumed") {
				add("abstraction: " + d)
			}
		}
	}
	sort.Strings(assumptions)
	trusted = []string{
		"go/types + go/ssa (x/tools v0.29.0) as the semantics of the source",
		"govc SSA->SMT translation and memory model (/verif/govc)",
		"SMT solvers z3 5.1.0, z3 4.8.12, cvc5 1.0.3",
		"natively modelled library functions (intrinsics.go): errors.New/Wrap/Is, fmt.Errorf, binary.LittleEndian.{Uint32,PutUint32,...}, bytes.Equal, strings.HasPrefix, sync.Mutex",
		"sequential execution of the functions under contract (no data races)",
	}
	return
}

var idOrdinalRE = regexp.MustCompile(`#\d+$`)

// idStem strips the instance ordinal from an obligation id.
func idStem(id string) string { return idOrdinalRE.ReplaceAllString(id, "") }
