package main

// Symbolic executor over go/ssa (naive form): per function, loops are cut at
// their headers, blocks are executed in topological order with state merging,
// and obligations are emitted into the function's VC.

import (
	"fmt"
	"go/ast"
	"go/token"
	"go/types"
	"sort"
	"strings"

	"golang.org/x/tools/go/ssa"
)

type Exec struct {
	keyCodes map[string]bool
	w         *World
	vc        *VC
	heapSorts map[string]string
	epochTab  []*epochInfo
	ncell     int
	globals   map[*ssa.Global]*Cell
	ghosts    map[string]*Cell
	strLits   map[string]*Val
	boxes     map[string]bool
	top       *Frame
	inlineDepth int
	inDefer   int // >0: running deferred calls at a function exit
	noObl     int // >0: suppress obligations (spec evaluation of real code)
	curFn     string
	curSafety bool
	bounded   int
	inlineDepthNow int
	cbs       map[int]*cbInfo
	ranFns    map[*ssa.Function]bool
	lastCalls map[string][]*Cell
	stickyCells map[string][2]*Cell
}

// cbInfo: a callback that a callee invokes repeatedly (`calls P loop`): the
// sequence of argument tuples is a ghost array per argument leaf.
type cbInfo struct {
	ord    int
	args   [][]string // per parameter, per leaf: array term (Array Int sort)
	ptypes []types.Type
	count  string // number of completed invocations in the current state
}

type Frame struct {
	x        *Exec
	fn       *ssa.Function
	regs     map[ssa.Value]*Val
	cellOf   map[*ssa.Alloc]*Cell
	allocs   []*ssa.Alloc
	entry    *State
	args     []*Val
	contract *FuncContract
	depth    int
	top      bool
	freeVars map[*ssa.FreeVar]*Val
	loops    map[*ssa.BasicBlock]*loopInfo
	defers   []*deferRec
	rets     []*retRec
	resultCells []*Cell
	iters    map[ssa.Value]*Cell
	loopOrd  map[*ssa.BasicBlock]int
	decEntry map[*ssa.BasicBlock]string
	loopPre  map[*ssa.BasicBlock]*State
	reachDone map[string]bool
	runningDefer *deferRec // the deferred call being run (gates on it are checked now)
	deferSite int
	assignRows map[string]string
	heapAllocs []*ssa.Alloc
	parent   *Frame
}

type deferRec struct {
	call *ssa.Defer
	pc   string
	args []*Val
	fnv  *Val
}

type retRec struct {
	st   *State
	vals []*Val
}

type loopInfo struct {
	header  *ssa.BasicBlock
	body    map[*ssa.BasicBlock]bool
	latches []*ssa.BasicBlock
	ord     int // source ordinal (1-based) within the outermost source function
	pos     token.Pos
	stmt    ast.Node
}

// pointer paths (executor-level pointers)
const (
	pbCell = iota
	pbHeap
	pbElem
)

type psel struct {
	field int
	idx   string
	isIdx bool
}

type PtrPath struct {
	Base   int
	Cell   *Cell
	Ref    string
	Idx    string
	BaseTy types.Type
	Sel    []psel
	Ty     types.Type
	Link   *ArrLink
}

type Closure struct {
	fn       *ssa.Function
	bindings []*Val
}

type GlobalFn struct{ name string }

// ParamFn: a function-typed parameter of the function under verification.
type ParamFn struct{ name string }

type IterState struct {
	cell *Cell
	kind string // string | map
	over *Val
}

func (x *Exec) newCell(name string, ty types.Type, pos token.Pos) *Cell {
	x.ncell++
	return &Cell{id: x.ncell, name: name, ty: ty, pos: pos}
}

// ---------------------------------------------------------------------
// obligations

func (x *Exec) oblige(st *State, kind, text string, pos token.Pos, goal string, tags []string, safety bool) {
	if x.noObl > 0 {
		return
	}
	g := tImp(st.pc, goal)
	if g == "true" {
		// trivially discharged; still recorded so that counts are stable
	}
	vc := x.vc
	text = normText(text)
	key := x.curFn + "#" + kind + "#" + text
	vc.idCount[key]++
	id := key
	if n := vc.idCount[key]; n > 1 {
		id = fmt.Sprintf("%s#%d", key, n)
	}
	o := &Obl{ID: id, Kind: kind, Func: x.curFn, Text: text, Tags: tags, N: len(vc.lines), Goal: g, Safety: safety, vc: vc, Bounded: x.bounded}
	if pos.IsValid() {
		o.Pos = x.w.fset.Position(pos)
	}
	if x.top != nil {
		o.Vars = x.top.modelVars()
	}
	vc.obls = append(vc.obls, o)
}

// cover records a reachability query: the path condition must be satisfiable,
// otherwise everything proved under it is vacuous.
func (x *Exec) cover(st *State, what string, pos token.Pos) {
	if x.noObl > 0 || x.inlineDepthNow > 0 {
		return
	}
	vc := x.vc
	key := x.curFn + "#cover#" + what
	vc.idCount[key]++
	id := key
	if n := vc.idCount[key]; n > 1 {
		id = fmt.Sprintf("%s#%d", key, n)
	}
	o := &Obl{ID: id, Kind: "cover", Func: x.curFn, Text: what, N: len(vc.lines), Goal: tNot(st.pc), vc: vc}
	if pos.IsValid() {
		o.Pos = x.w.fset.Position(pos)
	}
	vc.covers = append(vc.covers, o)
}

// obligeAssume emits the obligation and then continues under the assumption
// that it holds (standard assert-then-assume).
func (x *Exec) obligeAssume(st *State, kind, text string, pos token.Pos, goal string, tags []string, safety bool) {
	x.oblige(st, kind, text, pos, goal, tags, safety)
	if x.noObl == 0 {
		x.vc.assume(tImp(st.pc, goal))
	}
}

func normText(s string) string {
	s = strings.Join(strings.Fields(s), " ")
	if len(s) > 160 {
		s = s[:160]
	}
	return s
}

func (x *Exec) srcText(pos token.Pos, n ast.Node) string {
	if n != nil {
		return x.w.nodeText(n)
	}
	return ""
}

// ---------------------------------------------------------------------
// pointer paths

func (x *Exec) leafHeapName(p *PtrPath, j int) (name, sort string) {
	ss := leafSorts(p.BaseTy)
	ln := leafNames(p.BaseTy)
	switch p.Base {
	case pbHeap:
		return "H_" + typeKey(p.BaseTy) + "_" + ln[j], arrSort(ss[j])
	case pbElem:
		return "A_" + typeKey(p.BaseTy) + "_" + ln[j], arrSort(arrSort(ss[j]))
	}
	panic("leafHeapName")
}

func leafNames(t types.Type) []string {
	switch u := under(t).(type) {
	case *types.Struct:
		var out []string
		for i := 0; i < u.NumFields(); i++ {
			sub := leafNames(u.Field(i).Type())
			for _, s := range sub {
				n := u.Field(i).Name()
				if s != "" {
					n += "." + s
				}
				out = append(out, n)
			}
		}
		return out
	case *types.Basic:
		if u.Info()&types.IsString != 0 {
			return []string{"sarr", "soff", "slen"}
		}
		return []string{""}
	case *types.Slice:
		return []string{"ref", "off", "len", "cap"}
	case *types.Array:
		return leafNames(u.Elem())
	case *types.Tuple:
		var out []string
		for i := 0; i < u.Len(); i++ {
			for _, s := range leafNames(u.At(i).Type()) {
				out = append(out, fmt.Sprintf("%d.%s", i, s))
			}
		}
		return out
	}
	return []string{""}
}

// resolvePath computes the leaf range and the index chain a path selects.
func resolvePath(p *PtrPath) (lo, hi int, chain []string, ty types.Type) {
	ty = p.BaseTy
	lo, hi = 0, nLeaves(ty)
	for _, s := range p.Sel {
		if s.isIdx {
			chain = append(chain, s.idx)
			ty = under(ty).(*types.Array).Elem()
		} else {
			l, h := fieldRange(ty, s.field)
			ty = under(ty).(*types.Struct).Field(s.field).Type()
			lo, hi = lo+l, lo+h
		}
	}
	return
}

func (x *Exec) baseLeaf(st *State, p *PtrPath, j int) string {
	switch p.Base {
	case pbCell:
		v, ok := st.cells[p.Cell]
		if !ok {
			v = x.initCell(st, p.Cell)
		}
		return v.L[j]
	case pbHeap:
		n, s := x.leafHeapName(p, j)
		return tSel(x.heap(st, n, s), p.Ref)
	case pbElem:
		n, s := x.leafHeapName(p, j)
		return tSel(tSel(x.heap(st, n, s), p.Ref), p.Idx)
	}
	panic("baseLeaf")
}

func (x *Exec) initCell(st *State, c *Cell) *Val {
	var v *Val
	if c.global != nil || c.ghost {
		v = x.freshVal(c.name, c.ty)
	} else {
		v = zeroVal(c.ty)
	}
	st.cells[c] = v
	return v
}

func (x *Exec) setBaseLeaf(st *State, p *PtrPath, j int, t string) {
	switch p.Base {
	case pbCell:
		v, ok := st.cells[p.Cell]
		if !ok {
			v = x.initCell(st, p.Cell)
		}
		nl := append([]string(nil), v.L...)
		nl[j] = t
		st.cells[p.Cell] = &Val{Ty: v.Ty, L: nl, X: nil}
	case pbHeap:
		n, s := x.leafHeapName(p, j)
		st.heaps[n] = x.vc.def(n, s, tSto(x.heap(st, n, s), p.Ref, t))
	case pbElem:
		n, s := x.leafHeapName(p, j)
		h := x.heap(st, n, s)
		st.heaps[n] = x.vc.def(n, s, tSto(h, p.Ref, tSto(tSel(h, p.Ref), p.Idx, t)))
	}
}

func selChain(t string, chain []string) string {
	for _, i := range chain {
		t = tSel(t, i)
	}
	return t
}

func updChain(t string, chain []string, v string) string {
	if len(chain) == 0 {
		return v
	}
	return tSto(t, chain[0], updChain(tSel(t, chain[0]), chain[1:], v))
}

func (x *Exec) loadPath(st *State, p *PtrPath) *Val {
	lo, hi, chain, ty := resolvePath(p)
	if p.Base == pbCell && len(p.Sel) == 0 {
		v, ok := st.cells[p.Cell]
		if !ok {
			v = x.initCell(st, p.Cell)
		}
		return v
	}
	out := &Val{Ty: ty, L: make([]string, hi-lo)}
	for j := lo; j < hi; j++ {
		out.L[j-lo] = selChain(x.baseLeaf(st, p, j), chain)
	}
	if p.Base != pbCell {
		x.typeFacts(out)
		x.refFacts(st, out)
	} else if len(chain) > 0 {
		x.typeFacts(out)
	}
	return out
}

// refFacts: every reference read from memory was allocated earlier.
func (x *Exec) refFacts(st *State, v *Val) {
	if v.X != nil {
		if _, isPtr := v.X.(*PtrPath); isPtr {
			return
		}
	}
	x.refFactsAt(st, v.Ty, v.L)
}

func (x *Exec) refFactsAt(st *State, t types.Type, L []string) {
	switch u := under(t).(type) {
	case *types.Pointer, *types.Slice, *types.Map, *types.Chan:
		if len(L) > 0 {
			x.knownRef(st, L[0])
		}
	case *types.Struct:
		off := 0
		for i := 0; i < u.NumFields(); i++ {
			n := nLeaves(u.Field(i).Type())
			x.refFactsAt(st, u.Field(i).Type(), L[off:off+n])
			off += n
		}
	case *types.Tuple:
		off := 0
		for i := 0; i < u.Len(); i++ {
			n := nLeaves(u.At(i).Type())
			x.refFactsAt(st, u.At(i).Type(), L[off:off+n])
			off += n
		}
	case *types.Array:
		// an array value whose elements are references (slices, pointers, maps):
		// every element refers to an object that exists already
		switch under(u.Elem()).(type) {
		case *types.Pointer, *types.Slice, *types.Map, *types.Chan:
			if len(L) > 0 && u.Len() <= 64 {
				for i := int64(0); i < u.Len(); i++ {
					x.vc.assume(tCmp("<=", tSel(L[0], num(i)), st.allocTop))
				}
			}
		}
	}
}

func (x *Exec) storePath(st *State, p *PtrPath, v *Val) {
	lo, hi, chain, _ := resolvePath(p)
	if p.Base == pbCell && len(p.Sel) == 0 {
		st.cells[p.Cell] = v
		return
	}
	if hi-lo != len(v.L) {
		panic(fmt.Sprintf("storePath: layout mismatch: %d leaves into %v", len(v.L), p.Ty))
	}
	if v.X != nil {
		if _, isPtr := v.X.(*PtrPath); isPtr {
			x.vc.diag("%s: storing an interior pointer into memory is outside the subset", x.curFn)
		}
	}
	for j := lo; j < hi; j++ {
		nv := updChain(x.baseLeaf(st, p, j), chain, v.L[j-lo])
		x.setBaseLeaf(st, p, j, nv)
	}
	if p.Link != nil {
		x.writeBackLink(st, p.Link)
	}
}

// ptrOf converts a pointer value into a path to its pointee.
func (x *Exec) ptrOf(v *Val) *PtrPath {
	if p, ok := v.X.(*PtrPath); ok {
		return p
	}
	if _, mixed := v.X.(*mixedX); mixed {
		panic("pointer whose target differs between merged paths")
	}
	et := ptrElem(v.Ty)
	return &PtrPath{Base: pbHeap, Ref: v.L[0], BaseTy: et, Ty: et}
}

func (p *PtrPath) extend(s psel, ty types.Type) *PtrPath {
	np := *p
	np.Sel = append(append([]psel(nil), p.Sel...), s)
	np.Ty = ty
	return &np
}

// ---------------------------------------------------------------------
// string literals

func (x *Exec) strLit(s string) *Val {
	if v, ok := x.strLits[s]; ok {
		return v
	}
	name := fmt.Sprintf("strlit!%d", len(x.strLits))
	x.vc.declare(name, sArrI)
	for i := 0; i < len(s); i++ {
		x.vc.assumeGlobal(tEq(tSel(name, num(int64(i))), num(int64(s[i]))))
	}
	v := &Val{Ty: types.Typ[types.String], L: []string{name, "0", num(int64(len(s)))}, X: &StrLit{s}}
	x.strLits[s] = v
	return v
}

type StrLit struct{ s string }

// seqEq: content equality of two (arr, off, len) sequences.
func (x *Exec) seqEq(a, b []string, aLit, bLit *StrLit) string {
	if aLit != nil && bLit != nil {
		if aLit.s == bLit.s {
			return "true"
		}
		return "false"
	}
	if bLit == nil && aLit != nil {
		a, b, aLit, bLit = b, a, bLit, aLit
	}
	if bLit != nil && len(bLit.s) <= 64 {
		cs := []string{tEq(a[2], num(int64(len(bLit.s))))}
		for i := 0; i < len(bLit.s); i++ {
			cs = append(cs, tEq(tSel(a[0], tAdd(a[1], num(int64(i)))), num(int64(bLit.s[i]))))
		}
		return tAnd(cs...)
	}
	if a[0] == b[0] && a[1] == b[1] {
		return tEq(a[2], b[2])
	}
	x.vc.nfresh++
	i := fmt.Sprintf("i!%d", x.vc.nfresh)
	lo, hi, ps := reindex(i, "0", a[2], "(= "+tSel(a[0], tAdd(a[1], i))+" "+tSel(b[0], tAdd(b[1], i))+")")
	return "(and (= " + a[2] + " " + b[2] + ") (forall ((" + i + " Int)) (=> (and (<= " + lo + " " + i + ") (< " + i + " " + hi + ")) " + ps[0] + ")))"
}

// strEq: Go's == on strings. Against a literal the comparison is spelled out
// byte by byte. Between two unknown strings it is equality of an uninterpreted
// content code strid_(arr, off, len): every proof holds for all
// interpretations of strid_, in particular for the real one (an injective
// encoding of the content), so this is sound; the only content facts exported
// are consequences of equal codes (equal length, equal first byte).
func (x *Exec) strEq(a, b *Val) string {
	la, lb := litOf(a), litOf(b)
	if la != nil || lb != nil {
		return x.seqEq(a.L, b.L, la, lb)
	}
	if a.L[0] == b.L[0] && a.L[1] == b.L[1] {
		return tEq(a.L[2], b.L[2])
	}
	ia, ib := x.strID(a), x.strID(b)
	eq := tEq(ia, ib)
	if eq != "true" && eq != "false" {
		x.vc.assume(tImp(eq, tAnd(tEq(a.L[2], b.L[2]), tImp(tCmp(">", a.L[2], "0"), tEq(tSel(a.L[0], a.L[1]), tSel(b.L[0], b.L[1]))))))
	}
	return eq
}

func (x *Exec) strID(v *Val) string {
	x.declareFun("strid_", "((Array Int Int) Int Int) Int")
	return "(strid_ " + v.L[0] + " " + v.L[1] + " " + v.L[2] + ")"
}

func litOf(v *Val) *StrLit {
	if l, ok := v.X.(*StrLit); ok {
		return l
	}
	return nil
}

// valEq: Go's == on two values of the same type.
func (x *Exec) valEq(st *State, a, b *Val) string {
	t := a.Ty
	if isUntyped(t) || (isIface(t) && !isIface(b.Ty)) {
		t = b.Ty
	}
	if a.Seq || b.Seq {
		return x.seqEq(x.seqOf(st, a), x.seqOf(st, b), nil, nil)
	}
	switch u := under(t).(type) {
	case *types.Basic:
		if u.Info()&types.IsString != 0 {
			return x.strEq(a, b)
		}
		return tEq(a.L[0], b.L[0])
	case *types.Struct:
		var cs []string
		for i := 0; i < u.NumFields(); i++ {
			cs = append(cs, x.valEq(st, a.field(i), b.field(i)))
		}
		return tAnd(cs...)
	case *types.Array:
		n := u.Len()
		if n <= 64 {
			var cs []string
			for i := int64(0); i < n; i++ {
				cs = append(cs, x.valEq(st, a.arrIndex(num(i)), b.arrIndex(num(i))))
			}
			return tAnd(cs...)
		}
		x.vc.nfresh++
		i := fmt.Sprintf("i!%d", x.vc.nfresh)
		return "(forall ((" + i + " Int)) (=> (and (<= 0 " + i + ") (< " + i + " " + num(n) + ")) " + x.valEq(st, a.arrIndex(i), b.arrIndex(i)) + "))"
	case *types.Slice:
		// only comparison with nil is legal Go
		return tEq(a.L[0], b.L[0])
	default:
		if len(a.L) == 1 && len(b.L) == 1 {
			return tEq(a.L[0], b.L[0])
		}
	}
	var cs []string
	for i := range a.L {
		cs = append(cs, tEq(a.L[i], b.L[i]))
	}
	return tAnd(cs...)
}

// seqOf views a string, seq or slice as an immutable (arr, off, len) triple
// in the given state.
func (x *Exec) seqOf(st *State, v *Val) []string {
	if v.Seq || isString(v.Ty) {
		return v.L
	}
	if isSlice(v.Ty) {
		et := sliceElem(v.Ty)
		ss := leafSorts(et)
		ln := leafNames(et)
		var out []string
		for j, s := range ss {
			n := "A_" + typeKey(et) + "_" + ln[j]
			h := x.heap(st, n, arrSort(arrSort(s)))
			out = append(out, tSel(h, v.L[0]))
		}
		return append(out, v.L[1], v.L[2])
	}
	panic(fmt.Sprintf("seqOf %v", v.Ty))
}

// seq accessors: a seq value is [arr_0 .. arr_{n-1}, off, len] with one array
// per leaf of the element type (n == 1 for bytes and strings).
func seqOff(s []string) string { return s[len(s)-2] }
func seqLen(s []string) string { return s[len(s)-1] }

func seqSorts(et types.Type) []string {
	var out []string
	for _, s := range leafSorts(et) {
		out = append(out, arrSort(s))
	}
	return append(out, sInt, sInt)
}

func seqIndex(s []string, et types.Type, i string) *Val {
	n := len(s) - 2
	out := &Val{Ty: et, L: make([]string, n)}
	for j := 0; j < n; j++ {
		out.L[j] = tSel(s[j], tAdd(seqOff(s), i))
	}
	return out
}

// ---------------------------------------------------------------------
// slices

func (x *Exec) elemPath(sl *Val, idx string) *PtrPath {
	et := sliceElem(sl.Ty)
	return &PtrPath{Base: pbElem, Ref: sl.L[0], Idx: tAdd(sl.L[1], idx), BaseTy: et, Ty: et}
}

// allocBacking allocates a zeroed backing array for element type et.
func (x *Exec) allocBacking(st *State, et types.Type) string {
	r := x.newRef(st)
	ss := leafSorts(et)
	ln := leafNames(et)
	for j, s := range ss {
		n := "A_" + typeKey(et) + "_" + ln[j]
		hs := arrSort(arrSort(s))
		st.heaps[n] = x.vc.def(n, hs, tSto(x.heap(st, n, hs), r, zeroLeaf(arrSort(s))))
	}
	return r
}

func (x *Exec) allocStruct(st *State, t types.Type, init *Val) string {
	r := x.newRef(st)
	p := &PtrPath{Base: pbHeap, Ref: r, BaseTy: t, Ty: t}
	if init == nil {
		init = zeroVal(t)
	}
	for j := range init.L {
		x.setBaseLeaf(st, p, j, init.L[j])
	}
	return r
}

// sorted keys helper
func sortedKeys[V any](m map[string]V) []string {
	ks := make([]string, 0, len(m))
	for k := range m {
		ks = append(ks, k)
	}
	sort.Strings(ks)
	return ks
}
