package main

import (
	"bytes"
	"context"
	"fmt"
	"os"
	"os/exec"
	"path/filepath"
	"regexp"
	"strings"
	"sync"
	"time"
)

type SolverCfg struct {
	WorkDir   string
	TimeoutS  int
	All       bool // run every solver on every obligation (cross-check)
	Workers   int
	KeepFiles bool
}

var solverOrder = []string{"z3-new", "z3", "cvc5"}

func (o *Obl) smt(withModel bool) string {
	if o.vc != nil && o.vc.rawQueries != nil {
		if q, ok := o.vc.rawQueries[o]; ok {
			return q
		}
	}
	var b strings.Builder
	if withModel {
		b.WriteString("(set-option :produce-models true)\n")
	}
	b.WriteString("(set-logic ALL)\n")
	b.WriteString(smtPrelude)
	for _, d := range o.vc.recDefs {
		b.WriteString(d)
		b.WriteByte('\n')
	}
	for _, l := range o.vc.lines[:o.N] {
		b.WriteString(l)
		b.WriteByte('\n')
	}
	b.WriteString("(assert (not " + o.Goal + "))\n(check-sat)\n")
	if withModel {
		var vs []string
		for _, v := range o.Vars {
			if v.Term != "" && !strings.Contains(v.Name, "sarr") {
				vs = append(vs, v.Term)
			}
		}
		if len(vs) > 0 {
			b.WriteString("(get-value (" + strings.Join(vs, " ") + "))\n")
		}
	}
	return b.String()
}

func runSolver(parent context.Context, solver, file string, timeoutS int) (status, output string, secs float64) {
	var cmd *exec.Cmd
	ctx, cancel := context.WithTimeout(parent, time.Duration(timeoutS+2)*time.Second)
	defer cancel()
	switch solver {
	case "z3-new":
		cmd = exec.CommandContext(ctx, "z3-new", "-smt2", fmt.Sprintf("-T:%d", timeoutS), file)
	case "z3":
		cmd = exec.CommandContext(ctx, "z3", "-smt2", fmt.Sprintf("-T:%d", timeoutS), file)
	case "cvc5":
		cmd = exec.CommandContext(ctx, "cvc5", fmt.Sprintf("--tlimit=%d", timeoutS*1000), "--lang=smt2", "--produce-models", file)
	}
	var out bytes.Buffer
	cmd.Stdout = &out
	cmd.Stderr = &out
	t0 := time.Now()
	_ = cmd.Run()
	secs = time.Since(t0).Seconds()
	output = out.String()
	first := strings.TrimSpace(strings.SplitN(output, "\n", 2)[0])
	switch first {
	case "unsat", "sat", "unknown":
		status = first
	case "timeout":
		status = "timeout"
	default:
		if strings.Contains(output, "timeout") || ctx.Err() != nil {
			status = "timeout"
		} else if strings.Contains(first, "error") || strings.Contains(output, "(error") {
			status = "error"
		} else {
			status = "unknown"
		}
	}
	return
}

var fileSafe = regexp.MustCompile(`[^A-Za-z0-9_.-]+`)

func solveAll(obls []*Obl, cfg SolverCfg) {
	if cfg.Workers <= 0 {
		cfg.Workers = 16
	}
	os.MkdirAll(cfg.WorkDir, 0o755)
	var wg sync.WaitGroup
	ch := make(chan int)
	for w := 0; w < cfg.Workers; w++ {
		wg.Add(1)
		go func() {
			defer wg.Done()
			for i := range ch {
				solveOne(obls[i], i, cfg)
			}
		}()
	}
	for i := range obls {
		ch <- i
	}
	close(ch)
	wg.Wait()
}

func solveOne(o *Obl, idx int, cfg SolverCfg) {
	if o.Goal == "true" {
		o.Status, o.Solver = "unsat", "trivial"
		return
	}
	base := fmt.Sprintf("%04d_%s", idx, fileSafe.ReplaceAllString(o.ID, "_"))
	if len(base) > 120 {
		base = base[:120]
	}
	file := filepath.Join(cfg.WorkDir, base+".smt2")
	if err := os.WriteFile(file, []byte(o.smt(false)), 0o644); err != nil {
		o.Status = "error"
		o.Output = err.Error()
		return
	}
	var outs []string
	agree := ""
	record := func(s, st, out string, secs float64) {
		outs = append(outs, fmt.Sprintf("[%s] %s (%.2fs)\n%s", s, st, secs, truncate(out, 600)))
		if st == "unsat" || st == "sat" {
			if agree == "" {
				agree = st
				o.Status, o.Solver = st, s
			} else if agree != st {
				o.Status = "disagree"
			}
		}
	}
	// phase 1: the usually fastest solver with a short budget
	quick := 2
	if quick > cfg.TimeoutS {
		quick = cfg.TimeoutS
	}
	st1, out1, secs1 := runSolver(context.Background(), solverOrder[0], file, quick)
	o.Secs += secs1
	record(solverOrder[0], st1, out1, secs1)
	if agree == "" || cfg.All {
		// phase 2: race all solvers with the full budget
		ctx, cancel := context.WithCancel(context.Background())
		type res struct {
			s, st, out string
			secs       float64
		}
		ch := make(chan res, len(solverOrder))
		n := 0
		for _, s := range solverOrder {
			if cfg.All && s == solverOrder[0] && agree != "" {
				continue
			}
			n++
			go func(s string) {
				st, out, secs := runSolver(ctx, s, file, cfg.TimeoutS)
				ch <- res{s, st, out, secs}
			}(s)
		}
		t0 := time.Now()
		for i := 0; i < n; i++ {
			r := <-ch
			record(r.s, r.st, r.out, r.secs)
			if (r.st == "unsat" || r.st == "sat") && !cfg.All {
				cancel()
				break
			}
		}
		cancel()
		o.Secs += time.Since(t0).Seconds()
	}
	if o.Status == "" {
		o.Status = "unknown"
		for _, s := range outs {
			if strings.Contains(s, "] timeout") {
				o.Status = "timeout"
			}
		}
	}
	o.Output = strings.Join(outs, "\n")
	if o.Status == "sat" {
		// fetch a model
		mfile := filepath.Join(cfg.WorkDir, base+".model.smt2")
		os.WriteFile(mfile, []byte(o.smt(true)), 0o644)
		solver := o.Solver
		_, out, _ := runSolver(context.Background(), solver, mfile, cfg.TimeoutS)
		o.Model = parseModel(o, out)
		o.Output += "\n[model]\n" + truncate(out, 4000)
		if !cfg.KeepFiles {
			os.Remove(mfile)
		}
	}
	if !cfg.KeepFiles && o.Status == "unsat" {
		os.Remove(file)
	}
}

func truncate(s string, n int) string {
	if len(s) > n {
		return s[:n] + "…"
	}
	return s
}

// parseModel extracts (term value) pairs from a get-value answer.
func parseModel(o *Obl, out string) map[string]string {
	m := map[string]string{}
	i := strings.Index(out, "((")
	if i < 0 {
		return m
	}
	s := out[i:]
	// tokenise s-expressions at depth 2
	depth := 0
	start := -1
	var pairs []string
	for k := 0; k < len(s); k++ {
		switch s[k] {
		case '(':
			depth++
			if depth == 2 {
				start = k
			}
		case ')':
			if depth == 2 && start >= 0 {
				pairs = append(pairs, s[start+1:k])
				start = -1
			}
			depth--
			if depth == 0 {
				k = len(s)
			}
		}
	}
	idx := 0
	var vs []ModelVar
	for _, v := range o.Vars {
		if v.Term != "" && !strings.Contains(v.Name, "sarr") {
			vs = append(vs, v)
		}
	}
	for _, p := range pairs {
		if idx >= len(vs) {
			break
		}
		v := vs[idx]
		idx++
		val := strings.TrimSpace(strings.TrimPrefix(strings.TrimSpace(p), v.Term))
		m[v.Name] = val
	}
	return m
}
