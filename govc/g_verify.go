package main

import (
	"runtime/debug"
	"fmt"
	"go/token"
	"go/types"
	"sort"
	"strings"

	"golang.org/x/tools/go/ssa"
)

type FuncResult struct {
	Name     string
	VC       *VC
	Contract *FuncContract
	Diags    []string
	Err      string
}

// findFunction resolves a full SSA name to the function.
func (w *World) findFunction(full string) *ssa.Function {
	for _, sp := range w.spkgs {
		for _, m := range sp.Members {
			switch mm := m.(type) {
			case *ssa.Function:
				if f := matchFn(mm, full); f != nil {
					return f
				}
			case *ssa.Type:
				for _, recv := range []types.Type{mm.Type(), types.NewPointer(mm.Type())} {
					ms := w.prog.MethodSets.MethodSet(recv)
					for i := 0; i < ms.Len(); i++ {
						fn := w.prog.MethodValue(ms.At(i))
						if fn == nil {
							continue
						}
						if f := matchFn(fn, full); f != nil {
							return f
						}
					}
				}
			}
		}
	}
	// generic instantiations
	all := allFunctions(w.prog)
	for fn := range all {
		if fn.String() == full {
			return fn
		}
	}
	// a generic function or method named by its declaration (`(*T[P]).M`): the
	// body exists per instantiation; the instance the loaded packages use whose
	// name sorts first is verified (the code is the same for every instance,
	// type arguments only change the representation of the parametric values)
	var best *ssa.Function
	norm := func(s string) string { return strings.ReplaceAll(s, ", ", ",") }
	for fn := range all {
		o := fn.Origin()
		if o == nil || fn.Blocks == nil {
			continue
		}
		matched := norm(o.String()) == norm(full)
		if !matched && strings.HasPrefix(norm(full), norm(o.String())+"$") {
			continue
		}
		if matched && (best == nil || fn.String() < best.String()) {
			best = fn
		}
	}
	if best == nil {
		best = w.instantiateMethod(full)
	}
	return best
}

func matchFn(fn *ssa.Function, full string) *ssa.Function {
	if fn.String() == full {
		return fn
	}
	if strings.HasPrefix(full, fn.String()+"$") {
		for _, af := range fn.AnonFuncs {
			if f := matchFn(af, full); f != nil {
				return f
			}
		}
	}
	return nil
}

func allFunctions(prog *ssa.Program) map[*ssa.Function]bool {
	out := map[*ssa.Function]bool{}
	var add func(f *ssa.Function)
	add = func(f *ssa.Function) {
		if f == nil || out[f] {
			return
		}
		out[f] = true
		for _, af := range f.AnonFuncs {
			add(af)
		}
	}
	for _, p := range prog.AllPackages() {
		for _, m := range p.Members {
			switch mm := m.(type) {
			case *ssa.Function:
				add(mm)
			case *ssa.Type:
				for _, recv := range []types.Type{mm.Type(), types.NewPointer(mm.Type())} {
					ms := prog.MethodSets.MethodSet(recv)
					for i := 0; i < ms.Len(); i++ {
						add(prog.MethodValue(ms.At(i)))
					}
				}
			}
		}
	}
	return out
}

func newExec(w *World, vc *VC) *Exec {
	x := &Exec{w: w, vc: vc, heapSorts: map[string]string{}, globals: map[*ssa.Global]*Cell{}, ghosts: map[string]*Cell{},
		strLits: map[string]*Val{}, boxes: map[string]bool{}}
	x.epochTab = []*epochInfo{{kind: 0, cache: map[string]string{}}}
	return x
}

// verifyFunc generates the VC of one function under contract.
func (w *World) verifyFunc(fn *ssa.Function, c *FuncContract) (res *FuncResult) {
	name := fn.String()
	vc := newVC(name)
	res = &FuncResult{Name: name, VC: vc, Contract: c}
	defer func() {
		if r := recover(); r != nil {
			res.Err = fmt.Sprint(r)
			if w.verbose {
				res.Err += "\n" + string(debug.Stack())
			}
		}
		res.Diags = vc.diags
	}()
	if fn.Blocks == nil {
		res.Err = "no body"
		return
	}
	x := newExec(w, vc)
	x.curFn = shortName(name)
	st := &State{pc: "true", cells: map[*Cell]*Val{}, heaps: map[string]string{}, epoch: 0}
	st.allocTop = vc.declare("allocTop0", sInt)
	vc.assume(tCmp("<=", "0", st.allocTop))
	st.events = "0"
	fr := x.newFrame(fn, nil)
	fr.top = true
	fr.contract = c
	x.top = fr
	var args []*Val
	for _, p := range fn.Params {
		v := x.freshVal(p.Name(), p.Type())
		x.refFacts(st, v)
		if _, isFn := under(p.Type()).(*types.Signature); isFn {
			v.X = &ParamFn{name: p.Name()}
		}
		args = append(args, v)
	}
	fr.args = args
	// free variables of a closure verified on its own are created lazily
	// ghost variables start unconstrained; they exist in the entry state so that
	// old(ghost.x) denotes the entry value
	{
		var gn []string
		for n := range w.ghosts {
			gn = append(gn, n)
		}
		sort.Strings(gn)
		for _, n := range gn {
			if gc := x.ghostCell(n); gc != nil {
				if _, ok := st.cells[gc]; !ok {
					x.initCell(st, gc)
				}
			}
		}
	}
	env := fr.specEnv(st)
	env.old = nil
	for _, r := range c.Requires {
		g, err := env.assuming().evalBool(r.Expr)
		if err != nil {
			vc.diag("%s: requires %q: %v", name, r.Text, err)
			res.Err = "binding: " + err.Error()
			return
		}
		vc.assume(g)
	}
	// axioms stated in the contract file of the function's package (assumed,
	// listed in the evidence)
	for _, cf := range w.cfiles {
		if fnSSAPkg(fn) == nil || cf.PkgPath != fnTypesPkg(fn).Path() {
			continue
		}
		for _, a := range cf.Axioms {
			// tagged axioms are only visible to functions of the same property
			if len(a.Tags) > 0 {
				shared := false
				for _, t := range a.Tags {
					if clauseTagged(c, t) {
						shared = true
					}
				}
				if !shared {
					continue
				}
			}
			aenv := &SpecEnv{x: x, st: st, pkg: fnTypesPkg(fn), vars: map[string]*Val{}}
			g, err := aenv.assuming().evalBool(a.Expr)
			if err != nil {
				vc.diag("axiom %s: %v", a.Label, err)
				continue
			}
			vc.assume(g)
		}
	}
	// crash invariants hold on entry by assumption
	for _, ci := range c.Crash {
		g, err := env.evalBool(ci.Expr)
		if err != nil {
			vc.diag("%s: crash_invariant %q: %v", name, ci.Text, err)
			continue
		}
		vc.assume(g)
	}
	fr.entry = st.clone()
	vc.replay = &ReplayInfo{fn: fn, args: args, contract: c, world: w}
	out, vals := fr.run(st, args)
	// closures that escaped (handed to a callee the engine did not execute them
	// through) are verified on their own: arbitrary arguments, arbitrary values
	// of the captured variables, arbitrary memory
	if len(c.Sends) > 0 || len(c.Reach) > 0 || len(c.LitEns) > 0 || len(c.LitReq) > 0 {
		w.verifyEscapedClosures(x, fn, c)
	}
	for _, lc := range c.LitEns {
		if lc.Clause.Label != "bound" {
			vc.diag("%s: literal %s: no such function literal returned", name, lc.Lit)
			res.Err = "binding: function literal not found: $" + lc.Lit
		}
	}
	for _, rc := range c.Reach {
		if rc.Optional {
			continue
		}
		if rc.Clause.Label != "bound" && strings.HasPrefix(rc.Stmt, "call:") && !w.writingBaseline {
			// a callee-keyed gate speaks about every call of that name: with no
			// such call left it holds trivially (typos are caught when the
			// baseline is written, where binding is required)
			vc.diag("%s: gate %q matches no call", name, rc.Stmt)
			continue
		}
		if rc.Clause.Label != "bound" {
			vc.diag("%s: reach clause: no statement with text %q", name, rc.Stmt)
			res.Err = "binding: reach statement not found: " + rc.Stmt
		}
	}
	for _, gcl := range c.Guarded {
		if gcl.Clause.Label != "bound" && w.writingBaseline {
			vc.diag("%s: guarded %s: the function never touches such a location", name, gcl.Pat)
			res.Err = "binding: guarded heap never accessed: " + gcl.Pat
		}
	}
	if out == nil {
		return
	}
	eenv := fr.specEnv(out)
	rn := resultNames(fn.Signature, c)
	for i, v := range vals {
		eenv.vars[rn[i]] = v
		eenv.vars[fmt.Sprintf("result%d", i)] = v
		eenv.vars[fmt.Sprintf("r%d", i)] = v
	}
	if len(vals) == 1 {
		eenv.vars["result"] = vals[0]
	}
	eenv.lookup = func(s *State, name string) (*Val, bool) { return fr.lookupLocal(s, name, token.NoPos) }
	for _, e := range c.Ensures {
		if e.Assumed || c.Trusted {
			// assumed postconditions (of a trusted summary whose gates are
			// verified) are not checked on the body
			continue
		}
		g, err := eenv.evalBool(e.Expr)
		if err != nil {
			vc.diag("%s: ensures %q: %v", name, e.Text, err)
			res.Err = "binding: " + err.Error()
			return
		}
		x.oblige(out, "ensures", e.Text, fn.Pos(), g, e.Tags, false)
	}
	for _, ci := range c.Crash {
		g, err := eenv.evalBool(ci.Expr)
		if err != nil {
			continue
		}
		x.oblige(out, "crash", "at return: "+ci.Text, fn.Pos(), g, ci.Tags, false)
	}
	// ghost frame: callers assume that a ghost variable the assigns clause does
	// not name keeps its value (`assigns *` speaks about program memory only)
	if !c.Trusted {
		listed := map[string]bool{}
		for _, a := range c.Assigns {
			if strings.HasPrefix(a, "ghost.") {
				listed[strings.TrimPrefix(a, "ghost.")] = true
			}
		}
		var names []string
		for n := range x.ghosts {
			names = append(names, n)
		}
		sort.Strings(names)
		for _, n := range names {
			gc := x.ghosts[n]
			if listed[n] {
				continue
			}
			ov, ok1 := fr.entry.cells[gc]
			nv, ok2 := out.cells[gc]
			if !ok1 || !ok2 || len(ov.L) != len(nv.L) {
				continue
			}
			var eqs []string
			for i := range ov.L {
				if ov.L[i] != nv.L[i] {
					eqs = append(eqs, tEq(ov.L[i], nv.L[i]))
				}
			}
			if len(eqs) == 0 {
				continue
			}
			x.oblige(out, "frame", "ghost."+n+" unchanged (not named in assigns)", fn.Pos(), tAnd(eqs...), nil, false)
		}
	}
	return
}

func (w *World) verifyEscapedClosures(x *Exec, fn *ssa.Function, c *FuncContract) {
	var visit func(f *ssa.Function)
	visit = func(f *ssa.Function) {
		for _, af := range f.AnonFuncs {
			if !x.ranFns[af] && af.Blocks != nil {
				func() {
					defer func() {
						if r := recover(); r != nil {
							x.vc.diag("%s: closure not verified: %v", af.String(), r)
						}
					}()
					saved := x.curFn
					x.curFn = shortName(af.String())
					defer func() { x.curFn = saved }()
					st := &State{pc: "true", cells: map[*Cell]*Val{}, heaps: map[string]string{}}
					st.epoch = x.newEpoch(&epochInfo{kind: 1, parent: 0, pats: []string{"*"}})
					st.allocTop = x.vc.fresh("allocTop", sInt)
					x.vc.assume(tCmp("<=", "0", st.allocTop))
					st.events = x.vc.fresh("events", sInt)
					fr := x.newFrame(af, nil)
					fr.contract = c
					var args []*Val
					for _, p := range af.Params {
						v := x.freshVal(p.Name(), p.Type())
						x.refFacts(st, v)
						if _, isSig := under(p.Type()).(*types.Signature); isSig {
							// `calls NAME pure` of the enclosing contract applies
							v.X = &ParamFn{name: p.Name()}
						}
						args = append(args, v)
					}
					// captured variables: unknown cells that exist from the start
					// (created lazily they would exist on some paths only)
					for _, fv := range af.FreeVars {
						fr.val(st, fv)
					}
					fr.args = args
					x.vc.pcNow = st.pc // facts about this state are not guarded by the previous function's path
					// ghost variables exist from the start (created lazily they
					// would be different unknowns on different paths)
					{
						var gn []string
						for n := range w.ghosts {
							gn = append(gn, n)
						}
						sort.Strings(gn)
						for _, n := range gn {
							if gc := x.ghostCell(n); gc != nil {
								if _, ok := st.cells[gc]; !ok {
									x.initCell(st, gc)
								}
							}
						}
					}
					root := af
					for root.Parent() != nil {
						root = root.Parent()
					}
					suffix := strings.TrimPrefix(af.Name(), root.Name()+"$")
					for _, lc := range c.LitReq {
						if lc.Lit != suffix {
							continue
						}
						env := fr.specEnv(st)
						env.old = nil
						env.lookup = func(s *State, name string) (*Val, bool) { return fr.lookupLocal(s, name, af.Pos()) }
						g, err := env.assuming().evalBool(lc.Clause.Expr)
						if err != nil {
							x.vc.diag("%s: literal %s requires %q: %v", af.String(), lc.Lit, lc.Clause.Text, err)
							continue
						}
						x.vc.assume(g)
						x.vc.diag("%s: assumed at the literal's entry: %s", af.String(), lc.Clause.Text)
					}
					fr.entry = st.clone()
					fr.run(st, args)
				}()
			}
			visit(af)
		}
	}
	visit(fn)
}

// verifyLemma proves a lemma clause (closed formula over spec functions).
func (w *World) verifyLemma(cf *ContractFile, l *Clause) *FuncResult {
	name := cf.PkgPath + ".lemma." + l.Label
	vc := newVC(name)
	res := &FuncResult{Name: name, VC: vc}
	defer func() {
		if r := recover(); r != nil {
			res.Err = fmt.Sprint(r)
		}
		res.Diags = vc.diags
	}()
	x := newExec(w, vc)
	x.curFn = shortName(name)
	st := &State{pc: "true", cells: map[*Cell]*Val{}, heaps: map[string]string{}, allocTop: "0", events: "0"}
	env := &SpecEnv{x: x, st: st, pkg: w.typesPkg(cf.PkgPath), vars: map[string]*Val{}}
	// axioms of the same file are available
	for _, a := range cf.Axioms {
		g, err := env.assuming().evalBool(a.Expr)
		if err != nil {
			vc.diag("axiom %s: %v", a.Label, err)
			continue
		}
		vc.assume(g)
	}
	g, err := env.evalBool(l.Expr)
	if err != nil {
		res.Err = "binding: " + err.Error()
		return res
	}
	x.oblige(st, "lemma", l.Label+": "+l.Text, 0, g, l.Tags, false)
	return res
}

func sortObls(os []*Obl) {
	sort.SliceStable(os, func(i, j int) bool { return os[i].ID < os[j].ID })
}

// instantiateMethod: `(*pkg.Type[P, ...]).Method` of a generic type - the
// method body exists per instantiation only. Every type parameter is
// instantiated with uint8 (struct{} if the constraint rejects that): the code is
// the same for every instance, a parametric value is only copied.
func (w *World) instantiateMethod(full string) *ssa.Function {
	if !strings.HasPrefix(full, "(") {
		return nil
	}
	close := strings.Index(full, ").")
	if close < 0 {
		return nil
	}
	recv, meth := full[1:close], full[close+2:]
	ptr := strings.HasPrefix(recv, "*")
	recv = strings.TrimPrefix(recv, "*")
	br := strings.Index(recv, "[")
	if br < 0 {
		return nil
	}
	qual := recv[:br]
	dot := strings.LastIndex(qual, ".")
	if dot < 0 {
		return nil
	}
	tp := w.typesPkg(qual[:dot])
	if tp == nil {
		return nil
	}
	tn, _ := tp.Scope().Lookup(qual[dot+1:]).(*types.TypeName)
	if tn == nil {
		return nil
	}
	named, _ := tn.Type().(*types.Named)
	if named == nil || named.TypeParams().Len() == 0 {
		return nil
	}
	var targs []types.Type
	for i := 0; i < named.TypeParams().Len(); i++ {
		targs = append(targs, types.Typ[types.Uint8])
	}
	inst, err := types.Instantiate(nil, named, targs, true)
	if err != nil {
		for i := range targs {
			targs[i] = types.NewStruct(nil, nil)
		}
		if inst, err = types.Instantiate(nil, named, targs, true); err != nil {
			return nil
		}
	}
	var rt types.Type = inst
	if ptr {
		rt = types.NewPointer(inst)
	}
	ms := w.prog.MethodSets.MethodSet(rt)
	for i := 0; i < ms.Len(); i++ {
		if ms.At(i).Obj().Name() == meth {
			return w.prog.MethodValue(ms.At(i))
		}
	}
	return nil
}
