package main

import (
	"sync"
	"fmt"
	"sort"
	"go/token"
	"go/types"
	"strings"

	"golang.org/x/tools/go/ssa"
)

const maxInlineDepth = 4

func (fr *Frame) execCall(st *State, in *ssa.Call) {
	res := fr.doCall(st, &in.Call, in.Pos(), in)
	fr.setResults(in, res)
	fr.rememberCall(st, &in.Call, res)
}

// rememberCall records the results of the most recent call to each named
// function on this path (spec builtins last(f), last1(f)).
func (fr *Frame) rememberCall(st *State, c *ssa.CallCommon, res []*Val) {
	name := lastCallName(c)
	if name == "" || len(res) == 0 {
		return
	}
	fr.rememberCallAs(st, name, res)
	// qualified key (Type_Name) for names that several callees share
	// (error.Error vs. a function-valued field Error): last(Archiver_Error)
	if q := qualifiedLastName(c); q != "" {
		fr.rememberCallAs(st, q, res)
	}
}

// qualifiedLastName: <receiver or struct type name>_<name> for interface
// methods, methods and function-valued struct fields.
func qualifiedLastName(c *ssa.CallCommon) string {
	tn := func(t types.Type) string {
		if p, ok := t.(*types.Pointer); ok {
			t = p.Elem()
		}
		if n, ok := t.(*types.Named); ok {
			return n.Obj().Name()
		}
		return ""
	}
	if c.IsInvoke() {
		if n := tn(c.Value.Type()); n != "" {
			return n + "_" + c.Method.Name()
		}
		return ""
	}
	if f := c.StaticCallee(); f != nil {
		if r := f.Signature.Recv(); r != nil {
			if n := tn(r.Type()); n != "" {
				return n + "_" + f.Name()
			}
		}
		return ""
	}
	if u, ok := c.Value.(*ssa.UnOp); ok {
		if fa, ok := u.X.(*ssa.FieldAddr); ok {
			st, _ := under(ptrElem(fa.X.Type())).(*types.Struct)
			if n := tn(fa.X.Type()); n != "" && st != nil {
				return n + "_" + st.Field(fa.Field).Name()
			}
		}
	}
	return ""
}

func (fr *Frame) rememberCallAs(st *State, name string, res []*Val) {
	x := fr.x
	if x.lastCalls == nil {
		x.lastCalls = map[string][]*Cell{}
	}
	cells := x.lastCalls[name]
	for i, r := range res {
		if r == nil {
			continue
		}
		if i >= len(cells) {
			cells = append(cells, x.newCell("last_"+name, r.Ty, token.NoPos))
		}
		if len(leafSorts(cells[i].ty)) == len(r.L) {
			st.cells[cells[i]] = &Val{Ty: cells[i].ty, L: r.L}
		}
	}
	x.lastCalls[name] = cells
}

// lastCallName: the key under which last(f) finds the results of a call.
func lastCallName(c *ssa.CallCommon) string {
	if c.IsInvoke() {
		return c.Method.Name()
	} else if f := c.StaticCallee(); f != nil {
		n := f.Name()
		if i := strings.Index(n, "["); i > 0 {
			n = n[:i] // instance of a generic function
		}
		return n
	} else if u, ok := c.Value.(*ssa.UnOp); ok {
		if g, ok := u.X.(*ssa.Global); ok {
			return g.Name()
		}
		// a local variable holding a function value: the variable's name
		if a, ok := u.X.(*ssa.Alloc); ok && a.Comment != "" {
			return a.Comment
		}
		// a captured variable holding a function value
		if fv, ok := u.X.(*ssa.FreeVar); ok {
			return fv.Name()
		}
		// a function-valued struct field: the field's name
		if fa, ok := u.X.(*ssa.FieldAddr); ok {
			if st, ok := under(ptrElem(fa.X.Type())).(*types.Struct); ok {
				return st.Field(fa.Field).Name()
			}
		}
	} else if p, ok := c.Value.(*ssa.Parameter); ok {
		return p.Name()
	}
	return ""
}

func (fr *Frame) setResults(in *ssa.Call, res []*Val) {
	switch t := in.Type().(type) {
	case *types.Tuple:
		if t.Len() == 0 {
			return
		}
		out := &Val{Ty: t}
		var xs []any
		hasX := false
		for i := 0; i < t.Len(); i++ {
			var r *Val
			if i < len(res) && res[i] != nil {
				r = res[i]
			} else {
				r = fr.x.freshVal("res", t.At(i).Type())
			}
			out.L = append(out.L, r.L...)
			xs = append(xs, r.X)
			if r.X != nil {
				hasX = true
			}
		}
		if hasX {
			out.X = xs
		}
		fr.set(in, out)
	default:
		if len(res) == 1 && res[0] != nil {
			r := res[0]
			if nLeaves(in.Type()) != len(r.L) {
				panic(fmt.Sprintf("call result layout mismatch: %v vs %v", in.Type(), r.Ty))
			}
			fr.set(in, &Val{Ty: in.Type(), L: r.L, X: r.X, Seq: r.Seq})
		} else {
			fr.set(in, fr.x.freshVal("res", in.Type()))
		}
	}
}

// doCall executes a call and returns its results.
func (fr *Frame) doCall(st *State, c *ssa.CallCommon, pos token.Pos, site ssa.Instruction) []*Val {
	if b, ok := c.Value.(*ssa.Builtin); ok {
		args := make([]*Val, len(c.Args))
		for i, a := range c.Args {
			args[i] = fr.val(st, a)
		}
		return fr.callBuiltin(st, b, c, args, pos)
	}
	args := make([]*Val, 0, len(c.Args)+1)
	if c.IsInvoke() {
		recv := fr.val(st, c.Value)
		fr.nilCheckIface(st, recv, pos)
		args = append(args, recv)
		for _, a := range c.Args {
			args = append(args, fr.val(st, a))
		}
		return fr.callMethodByIface(st, c.Method, args, pos)
	}
	fv := fr.val(st, c.Value)
	for _, a := range c.Args {
		args = append(args, fr.val(st, a))
	}
	// a function-valued field or variable that the contract of the function
	// under verification declares effect-free by name (`calls Name pure`):
	// assumed (listed) not to write caller-visible memory
	if fv.X == nil {
		if top := fr.x.top; top != nil && top.contract != nil {
			if n := lastCallName(c); n != "" && top.contract.Calls[n] == "pure" {
				x := fr.x
				x.vc.diag("%s: function value %s assumed not to write caller-visible memory (calls %s pure)", fr.fn.String(), n, n)
				x.bumpAllocTop(st)
				sig := c.Signature()
				var res []*Val
				for i := 0; i < sig.Results().Len(); i++ {
					r := x.freshVal("cb", sig.Results().At(i).Type())
					x.refFacts(st, r)
					res = append(res, r)
				}
				return res
			}
		}
	}
	return fr.callValue(st, fv, args, pos, c.Signature())
}

func (fr *Frame) nilCheckIface(st *State, v *Val, pos token.Pos) {
	if len(v.L) == 1 {
		if _, isn := isNumLit(v.L[0]); !isn {
			fr.x.obligeAssume(st, "nil", fr.x.w.nodeTextAt(pos), pos, tNot(tEq(v.L[0], "0")), nil, true)
		}
	}
}

func (fr *Frame) callValue(st *State, fv *Val, args []*Val, pos token.Pos, sig *types.Signature) []*Val {
	x := fr.x
	switch f := fv.X.(type) {
	case *Closure:
		return fr.callFunction(st, f.fn, f.bindings, args, pos)
	case *GlobalFn:
		if h, ok := intrinsics[f.name]; ok {
			return h(fr, st, args, pos)
		}
		if c := x.w.contractByName(f.name); c != nil {
			return fr.callWithContract(st, c, nil, sig, f.name, args, pos)
		}
		x.vc.diag("%s: call through function variable %s: havoc", fr.fn.String(), f.name)
		return fr.havocCall(st, args, sig)
	case *ssa.Builtin:
		return fr.callBuiltin(st, f, nil, args, pos)
	}
	if mx, ok := fv.X.(*mixedX); ok && !(x.effectFreeFn(mx.a) && x.effectFreeFn(mx.b)) {
		// the function value differs between merged paths (e.g. a cleanup
		// function chosen by a condition): run each alternative under its
		// condition and join the results
		_, aok := mx.a.(*Closure)
		_, bok := mx.b.(*Closure)
		if aok && bok && sig.Results().Len() == 0 {
			sa := st.clone()
			sa.pc = x.vc.def("pc", sBool, tAnd(st.pc, mx.c))
			sb := st.clone()
			sb.pc = x.vc.def("pc", sBool, tAnd(st.pc, tNot(mx.c)))
			x.vc.pcNow = sa.pc
			fr.callValue(sa, &Val{Ty: fv.Ty, L: fv.L, X: mx.a}, args, pos, sig)
			x.vc.pcNow = sb.pc
			fr.callValue(sb, &Val{Ty: fv.Ty, L: fv.L, X: mx.b}, args, pos, sig)
			if m := x.mergeStates([]*State{sa, sb}); m != nil {
				*st = *m
			} else {
				st.pc = "false"
			}
			x.vc.pcNow = st.pc
			return nil
		}
	}
	if mx, ok := fv.X.(*mixedX); ok && x.effectFreeFn(mx.a) && x.effectFreeFn(mx.b) {
		// either a callback assumed pure or a closure that does nothing
		x.bumpAllocTop(st)
		var res []*Val
		for i := 0; i < sig.Results().Len(); i++ {
			r := x.freshVal("cb", sig.Results().At(i).Type())
			x.refFacts(st, r)
			res = append(res, r)
		}
		return res
	}
	if pf, ok := fv.X.(*ParamFn); ok && x.top != nil && x.top.contract != nil && x.top.contract.Calls[pf.name] == "pure" {
		// assumed (listed): the callback does not write caller-visible memory
		x.vc.diag("%s: callback parameter %s assumed not to write caller-visible memory (calls %s pure)", fr.fn.String(), pf.name, pf.name)
		x.bumpAllocTop(st)
		var res []*Val
		for i := 0; i < sig.Results().Len(); i++ {
			r := x.freshVal("cb", sig.Results().At(i).Type())
			x.refFacts(st, r)
			res = append(res, r)
		}
		return res
	}
	if nt, ok := fv.Ty.(*types.Named); ok && nt.Obj().Pkg() != nil && nt.Obj().Pkg().Path() == "context" && nt.Obj().Name() == "CancelFunc" {
		// a context.CancelFunc cancels its context and does nothing else
		// (library type; assumed, listed)
		x.vc.diag("%s: context.CancelFunc value called: assumed to write no program memory", fr.fn.String())
		return nil
	}
	if len(args) == 1 {
		if cl, ok := args[0].X.(*Closure); ok && cl.fn.Synthetic == "range-over-func yield" {
			// `for ... := range it`: the iterator value `it` is unknown code.
			// Assumed (listed): an iterator invokes the loop body sequentially,
			// stops for good when the body returns false (break / return), and
			// writes no caller-visible memory itself. The body is then a loop
			// body: `callback N invariant` clauses are its invariants.
			x.vc.diag("%s: range over an iterator function: body executed as a loop (iterator assumed well-behaved and effect-free)", fr.fn.String())
			fr.callbackLoop(st, cl, "yield", fr.specEnv(st), pos, "loop")
			return nil
		}
	}
	x.vc.diag("%s: call through unknown function value at %s: havoc", fr.fn.String(), x.w.fset.Position(pos))
	// an unknown closure may write anything it captured
	x.havocAllHeaps(st)
	return fr.havocCall(st, args, sig)
}

func (fr *Frame) callMethodByIface(st *State, m *types.Func, args []*Val, pos token.Pos) []*Val {
	x := fr.x
	name := m.FullName()
	sig := m.Type().(*types.Signature)
	// known dynamic type: dispatch statically
	if b, ok := args[0].X.(*boxed); ok {
		if fn := x.w.prog.LookupMethod(b.v.Ty, m.Pkg(), m.Name()); fn != nil {
			na := append([]*Val{b.v}, args[1:]...)
			return fr.callFunction(st, fn, nil, na, pos)
		}
	}
	if h, ok := intrinsics[name]; ok {
		return h(fr, st, args, pos)
	}
	if c := x.w.contractByName(name); c != nil {
		return fr.callWithContract(st, c, nil, sig, name, args, pos)
	}
	x.vc.diag("%s: interface call %s without contract: havoc", fr.fn.String(), name)
	return fr.havocCall(st, args, sig)
}

var lockContracts sync.Map

func (fr *Frame) callFunction(st *State, fn *ssa.Function, bindings []*Val, args []*Val, pos token.Pos) []*Val {
	x := fr.x
	name := fn.String()
	if fn.Origin() != nil {
		name = fn.Origin().String()
	}
	if _, ok := intrinsics[name]; ok && strings.HasPrefix(name, "(*sync.") {
		// a lock operation the function under verification gives a meaning to
		// (`callee Lock ensures <monitor invariant>`): acquire havocs what the
		// monitor protects and hands out the invariant
		if top := x.top; top != nil && top.contract != nil {
			k := name[strings.LastIndex(name, ".")+1:]
			if len(top.contract.CalleeEns[k]) > 0 || len(top.contract.CalleeAsg[k]) > 0 {
				lcv, _ := lockContracts.LoadOrStore(name, &FuncContract{Key: name, Trusted: true, HasAssigns: true})
				lc := lcv.(*FuncContract)
				return fr.callWithContract(st, lc, fn, fn.Signature, name, args, pos)
			}
		}
	}
	if h, ok := intrinsics[name]; ok {
		return h(fr, st, args, pos)
	}
	c := x.w.contractFor(fn)
	if c != nil && !c.Inline {
		return fr.callWithContract(st, c, fn, fn.Signature, name, args, pos)
	}
	if fn.Blocks != nil && (c == nil || c.Inline) {
		if why := x.inlinable(fr, fn); why == "" {
			return fr.inlineCall(st, fn, bindings, args, pos)
		} else if x.w.verbose {
			x.vc.diag("%s: callee %s not inlined (%s): havoc", fr.fn.String(), name, why)
		}
	}
	if c == nil && len(args) == 1 {
		if cl, ok := args[0].X.(*Closure); ok && cl.fn.Synthetic == "range-over-func yield" {
			// `for ... := range it` where the iterator is a known function
			// literal that is not executed in place (it loops) and has no
			// contract: same assumption as for an unknown iterator value
			x.vc.diag("%s: range over an iterator function: body executed as a loop (iterator assumed well-behaved and effect-free)", fr.fn.String())
			fr.callbackLoop(st, cl, "yield", fr.specEnv(st), pos, "loop")
			return nil
		}
	}
	if top := x.top; top != nil && top.contract != nil && top.contract.Calls[fn.Name()] == "pure" {
		// `calls NAME pure` in the contract of the function under verification:
		// this function's calls to NAME (a callee without a contract of its own)
		// are taken to be effect-free - a local assumption, listed, that does not
		// turn into a summary other functions would see
		x.vc.diag("%s: callee %s assumed effect-free here (calls %s pure)", fr.fn.String(), name, fn.Name())
		x.bumpAllocTop(st)
		var res []*Val
		for i := 0; i < fn.Signature.Results().Len(); i++ {
			r := x.freshVal(fn.Name()+"_r", fn.Signature.Results().At(i).Type())
			x.refFacts(st, r)
			res = append(res, r)
		}
		return res
	}
	if fn.Blocks == nil {
		if !x.w.quietExternal[name] {
			x.vc.diag("%s: external %s without contract: havoc", fr.fn.String(), name)
		}
	} else {
		x.vc.diag("%s: callee %s without contract: havoc", fr.fn.String(), name)
	}
	return fr.havocCall(st, args, fn.Signature)
}

func (x *Exec) inlinable(fr *Frame, fn *ssa.Function) string {
	if fr.depth >= maxInlineDepth {
		return "depth"
	}
	for f := fr; f != nil; f = f.parent {
		if f.fn == fn {
			return "recursive"
		}
	}
	if len(fn.Blocks) > 60 {
		return "size"
	}
	if hasLoop(fn) {
		return "loop"
	}
	return ""
}

func hasLoop(fn *ssa.Function) bool {
	for _, b := range fn.Blocks {
		for _, s := range b.Succs {
			if s.Dominates(b) {
				return true
			}
		}
	}
	return false
}

// inlineCall executes the callee's body in place.
func (fr *Frame) inlineCall(st *State, fn *ssa.Function, bindings []*Val, args []*Val, pos token.Pos) []*Val {
	x := fr.x
	nf := x.newFrame(fn, fr)
	if x.ranFns == nil {
		x.ranFns = map[*ssa.Function]bool{}
	}
	x.ranFns[fn] = true
	for i, fv := range fn.FreeVars {
		if i < len(bindings) {
			nf.freeVars[fv] = bindings[i]
		}
	}
	out, vals := nf.run(st, args)
	if out == nil {
		// callee never returns on this path
		st.pc = "false"
		res := make([]*Val, fn.Signature.Results().Len())
		for i := range res {
			res[i] = x.freshVal("dead", fn.Signature.Results().At(i).Type())
		}
		return res
	}
	*st = *out
	x.vc.pcNow = st.pc
	return vals
}

// havocCall: results unconstrained; memory reachable from the arguments is
// forgotten.
func (fr *Frame) havocCall(st *State, args []*Val, sig *types.Signature) []*Val {
	x := fr.x
	fr.havocArgs(st, args)
	x.bumpAllocTop(st)
	var res []*Val
	if sig != nil {
		for i := 0; i < sig.Results().Len(); i++ {
			r := x.freshVal("hv", sig.Results().At(i).Type())
			x.refFacts(st, r)
			res = append(res, r)
		}
	}
	return res
}

func (fr *Frame) havocForUnknownCall(st *State, argv []ssa.Value, sig *types.Signature) {
	var args []*Val
	for _, a := range argv {
		args = append(args, fr.val(st, a))
	}
	fr.havocArgs(st, args)
}

func (fr *Frame) havocArgs(st *State, args []*Val) {
	x := fr.x
	all := false
	var pats []string
	var links []*Val
	for _, a := range args {
		if a == nil {
			continue
		}
		if cl, ok := a.X.(*Closure); ok {
			// the callee may run the closure: captured cells change
			for bi, b := range cl.bindings {
				if bi < len(cl.fn.FreeVars) && !freeVarMayBeWritten(cl.fn, cl.fn.FreeVars[bi], 0) {
					continue // the closure only reads this captured variable
				}
				if p, ok := b.X.(*PtrPath); ok && p.Base == pbCell {
					st.cells[p.Cell] = x.freshVal(p.Cell.name, p.Cell.ty)
				}
			}
			if x.closureWritesHeap(cl.fn) {
				all = true
			}
			continue
		}
		switch u := under(a.Ty).(type) {
		case *types.Pointer:
			if p, ok := a.X.(*PtrPath); ok {
				if p.Base == pbCell {
					// callee may write the pointee
					nv := x.freshVal(p.Cell.name, p.Ty)
					x.storePath(st, p, nv)
					if mayReachHeap(p.Ty) {
						all = true
					}
					continue
				}
			}
			all = true
		case *types.Interface, *types.Map, *types.Chan:
			all = true
		case *types.Signature:
			all = true
		case *types.Slice:
			et := u.Elem()
			if mayReachHeap(et) {
				all = true
			} else {
				pats = append(pats, "A_"+typeKey(et))
				if _, ok := a.X.(*ArrLink); ok {
					links = append(links, a)
				}
			}
		case *types.Struct:
			if mayReachHeap(a.Ty) {
				all = true
			}
		}
	}
	if all {
		x.havocAllHeaps(st)
	} else if len(pats) > 0 {
		x.havocHeapsMatching(st, pats)
	}
	for _, l := range links {
		x.writeBack(st, l)
	}
}

func (x *Exec) closureWritesHeap(fn *ssa.Function) bool {
	for _, b := range fn.Blocks {
		for _, ins := range b.Instrs {
			switch i := ins.(type) {
			case *ssa.Call, *ssa.MapUpdate, *ssa.Go, *ssa.Defer, *ssa.Send:
				return true
			case *ssa.Store:
				_ = i
				return true
			}
		}
	}
	return false
}

// mayReachHeap: values of this type can hold references to mutable memory.
func mayReachHeap(t types.Type) bool {
	return mayReach(t, 0)
}

func mayReach(t types.Type, d int) bool {
	if d > 6 {
		return true
	}
	switch u := under(t).(type) {
	case *types.Basic:
		return false
	case *types.Pointer, *types.Interface, *types.Map, *types.Chan, *types.Signature, *types.Slice:
		return true
	case *types.Array:
		return mayReach(u.Elem(), d+1)
	case *types.Struct:
		for i := 0; i < u.NumFields(); i++ {
			if mayReach(u.Field(i).Type(), d+1) {
				return true
			}
		}
		return false
	}
	return true
}

// ---------------------------------------------------------------------
// calls against a contract

func (fr *Frame) callWithContract(st *State, c *FuncContract, fn *ssa.Function, sig *types.Signature, name string, args []*Val, pos token.Pos) []*Val {
	x := fr.x
	c.used = true
	pnames := paramNames(fn, sig)
	if len(pnames) != len(args) {
		// receiver missing from signature-based names
		if len(pnames)+1 == len(args) {
			pnames = append([]string{"recv"}, pnames...)
		}
	}
	env := &SpecEnv{x: x, st: st, pkg: x.w.pkgOfContract(c), vars: map[string]*Val{}}
	for i, n := range pnames {
		if i < len(args) {
			env.vars[n] = args[i]
		}
	}
	if len(args) > 0 {
		env.vars["recv"] = args[0]
	}
	short := shortName(name)
	abstractedCall := false
	if top := x.top; top != nil && top.contract != nil && top.contract.Abstract != nil {
		sn := short
		if i := strings.LastIndex(sn, "."); i >= 0 {
			sn = sn[i+1:]
		}
		abstractedCall = top.contract.Abstract[sn]
	}
	for _, r := range c.Requires {
		if abstractedCall {
			break // neither checked nor assumed: the callee is treated as an unknown function with this frame
		}
		if r.Assumed {
			continue
		}
		g, err := env.evalBool(r.Expr)
		if err != nil {
			x.vc.diag("%s: requires of %s: %v", fr.fn.String(), name, err)
			g = "false"
		}
		x.obligeAssume(st, "requires", short+": "+r.Text, pos, g, r.Tags, false)
	}
	pre := st.clone()
	// higher-order callee: `calls P once` runs the closure passed for P in place
	for i, a := range args {
		cl, ok := a.X.(*Closure)
		if !ok || i >= len(pnames) || c.Calls[pnames[i]] != "once" {
			continue
		}
		csig := cl.fn.Signature
		var cargs []*Val
		for k := 0; k < csig.Params().Len(); k++ {
			v := x.freshVal("cbarg", csig.Params().At(k).Type())
			x.refFacts(st, v)
			switch under(v.Ty).(type) {
			case *types.Interface, *types.Pointer:
				x.vc.assume(tNot(tEq(v.L[0], "0")))
			}
			cargs = append(cargs, v)
		}
		vals := fr.inlineCall(st, cl.fn, cl.bindings, cargs, pos)
		for k, v := range vals {
			env.vars[fmt.Sprintf("%s_r%d", pnames[i], k)] = v
		}
	}
	for i, a := range args {
		cl, ok := a.X.(*Closure)
		if !ok || i >= len(pnames) || (c.Calls[pnames[i]] != "loop" && c.Calls[pnames[i]] != "retry") {
			continue
		}
		fr.callbackLoop(st, cl, pnames[i], env, pos, c.Calls[pnames[i]])
	}
	// frame
	if len(c.Assigns) > 0 {
		var heapPats []string
		for _, a := range c.Assigns {
			if strings.HasPrefix(a, "ghost.") {
				if gc := x.ghostCell(strings.TrimPrefix(a, "ghost.")); gc != nil {
					st.cells[gc] = x.freshVal(gc.name, gc.ty)
				}
				continue
			}
			if a == "*" {
				// everything in program memory
				heapPats = append(heapPats, "*")
				continue
			}
			if strings.HasPrefix(a, "*") {
				// *param: everything stored in the object the pointer argument refers to
				pn := strings.TrimPrefix(a, "*")
				for i, n := range pnames {
					if n != pn || i >= len(args) || !isPointer(args[i].Ty) {
						continue
					}
					p := x.ptrOf(args[i])
					if p.Base == pbHeap && len(p.Sel) == 0 {
						heapPats = append(heapPats, "H_"+typeKey(p.BaseTy))
					} else {
						x.storePath(st, p, x.freshVal(pn, p.Ty))
					}
				}
				continue
			}
			if pat, ex := splitAssign(a); ex != "" {
				e, err := parseSpecExpr(ex)
				if err != nil {
					x.vc.diag("assigns %s: %v", a, err)
					heapPats = append(heapPats, pat)
					continue
				}
				renv := *env
				renv.st = pre
				rv, err := renv.evalVal(e)
				if err != nil {
					x.vc.diag("assigns %s: %v", a, err)
					heapPats = append(heapPats, pat)
					continue
				}
				x.havocRow(st, []string{pat}, rv.L[0], pre.allocTop)
				continue
			}
			heapPats = append(heapPats, a)
		}
		x.havocHeapsMatching(st, heapPats)
	}
	if !c.Pure {
		// pointers to local cells passed in may be written
		for _, a := range args {
			if p, ok := a.X.(*PtrPath); ok && p.Base == pbCell && isPointer(a.Ty) {
				x.storePath(st, p, x.freshVal(p.Cell.name, p.Ty))
			}
			if cl, ok := a.X.(*Closure); ok {
				if mode := c.Calls[pnameOf(pnames, args, a)]; mode == "" || mode == "pure" {
					// (`calls P pure` is an assumption for verifying the callee's own
					// body; a caller's closure may well write what it captured)
					for bi, b := range cl.bindings {
						if bi < len(cl.fn.FreeVars) && !freeVarMayBeWritten(cl.fn, cl.fn.FreeVars[bi], 0) {
							continue // the closure only reads this captured variable
						}
						if p, ok := b.X.(*PtrPath); ok && p.Base == pbCell {
							st.cells[p.Cell] = x.freshVal(p.Cell.name, p.Cell.ty)
						}
					}
				}
			}
		}
		for _, a := range args {
			if _, ok := a.X.(*ArrLink); ok {
				x.writeBack(st, a)
			}
		}
	}
	// local refinement by the function under verification: ghost variables this
	// callee is taken to update
	calleeKey := short
	if i := strings.LastIndex(calleeKey, "."); i >= 0 {
		calleeKey = calleeKey[i+1:]
	}
	var extraEns []*Clause
	if top := x.top; top != nil && top.contract != nil {
		for _, a := range top.contract.CalleeAsg[calleeKey] {
			if strings.HasPrefix(a, "ghost.") {
				if gc := x.ghostCell(strings.TrimPrefix(a, "ghost.")); gc != nil {
					st.cells[gc] = x.freshVal(gc.name, gc.ty)
				}
			}
		}
		extraEns = top.contract.CalleeEns[calleeKey]
	}
	// the callee may have allocated
	x.bumpAllocTop(st)
	// results
	var res []*Val
	rn := resultNames(sig, c)
	for i := 0; i < sig.Results().Len(); i++ {
		r := x.freshVal(short+"_r", sig.Results().At(i).Type())
		x.refFacts(st, r)
		res = append(res, r)
		env.vars[rn[i]] = r
		env.vars[fmt.Sprintf("result%d", i)] = r
		env.vars[fmt.Sprintf("r%d", i)] = r
	}
	if len(res) == 1 {
		env.vars["result"] = res[0]
	}
	env.st = st
	env.old = pre
	env.evBase = pre.events
	x.vc.pcNow = st.pc
	abstracted := false
	if top := x.top; top != nil && top.contract != nil && top.contract.Abstract != nil {
		sn := short
		if i := strings.LastIndex(sn, "."); i >= 0 {
			sn = sn[i+1:]
		}
		abstracted = top.contract.Abstract[sn]
	}
	for _, e := range c.Ensures {
		if abstracted {
			break // the function under verification asked not to use this callee's postconditions
		}
		g, err := env.assuming().evalBool(e.Expr)
		if err != nil {
			x.vc.diag("%s: ensures of %s: %v", fr.fn.String(), name, err)
			continue
		}
		x.vc.assume(tImp(st.pc, g))
	}
	for _, e := range extraEns {
		// written in the caller's contract: the caller's locals are visible
		// (callee parameter and result names take precedence)
		env2 := *env
		if env2.lookup == nil {
			// caller_x names the caller's x even when the callee has a parameter x
			env2.lookup = func(s *State, name string) (*Val, bool) {
				return fr.lookupLocal(s, strings.TrimPrefix(name, "caller_"), pos)
			}
		}
		g, err := env2.assuming().evalBool(e.Expr)
		if err != nil {
			x.vc.diag("%s: callee %s ensures %q: %v", fr.fn.String(), calleeKey, e.Text, err)
			continue
		}
		x.vc.diag("%s: assumed for calls to %s: %s", fr.fn.String(), calleeKey, e.Text)
		x.vc.assume(tImp(st.pc, g))
	}
	if c.Sticky && len(res) == 1 && len(args) > 0 && len(args[0].L) == 1 && len(res[0].L) == 1 {
		// monotone observer: the previous call on the same receiver (the most
		// recent one on this path) already answered non-zero => so does this one
		if x.stickyCells == nil {
			x.stickyCells = map[string][2]*Cell{}
		}
		cs, ok := x.stickyCells[name]
		if !ok {
			cs = [2]*Cell{x.newCell("last_stickyrecv_"+short, args[0].Ty, token.NoPos), x.newCell("last_stickyres_"+short, res[0].Ty, token.NoPos)}
			x.stickyCells[name] = cs
		}
		zero := "0"
		if isBool(res[0].Ty) {
			zero = "false"
		}
		if pr, ok := st.cells[cs[0]]; ok {
			if pv, ok := st.cells[cs[1]]; ok {
				x.vc.assume(tImp(st.pc, tImp(tAnd(tEq(pr.L[0], args[0].L[0]), tNot(tEq(pv.L[0], zero))), tNot(tEq(res[0].L[0], zero)))))
			}
		}
		st.cells[cs[0]] = &Val{Ty: cs[0].ty, L: args[0].L}
		st.cells[cs[1]] = &Val{Ty: cs[1].ty, L: res[0].L}
	}
	if len(c.Effects) > 0 {
		st.events = tAdd(st.events, "1")
		fr.crashCheck(st, pos, short)
	}
	return res
}

func pnameOf(pnames []string, args []*Val, a *Val) string {
	for i := range args {
		if args[i] == a && i < len(pnames) {
			return pnames[i]
		}
	}
	return ""
}

func shortName(name string) string {
	// strip the module path
	name = strings.ReplaceAll(name, "github.com/restic/restic/", "")
	return name
}

func paramNames(fn *ssa.Function, sig *types.Signature) []string {
	var out []string
	if fn != nil && fn.Blocks != nil {
		for _, p := range fn.Params {
			out = append(out, p.Name())
		}
		return out
	}
	if sig.Recv() != nil {
		n := sig.Recv().Name()
		if n == "" || n == "_" {
			n = "recv"
		}
		out = append(out, n)
	}
	for i := 0; i < sig.Params().Len(); i++ {
		n := sig.Params().At(i).Name()
		if n == "" || n == "_" {
			n = fmt.Sprintf("p%d", i)
		}
		out = append(out, n)
	}
	return out
}

func resultNames(sig *types.Signature, c *FuncContract) []string {
	var out []string
	for i := 0; i < sig.Results().Len(); i++ {
		n := sig.Results().At(i).Name()
		if c != nil && i < len(c.Results) {
			n = c.Results[i]
		}
		if n == "" || n == "_" {
			n = fmt.Sprintf("r%d", i)
		}
		out = append(out, n)
	}
	return out
}

// callbackLoop: the callee invokes the closure any number of times, one after
// the other, and stops at the first invocation that returns an error (`calls P
// loop`). The closure body is a loop body: the caller's `callback N invariant`
// clauses must hold before the first invocation and be preserved by every
// invocation that returns nil. In clauses, _n is the number of completed
// invocations and _a0(i), _a1(i) are the arguments of invocation i.
// Mode "loop": the callee invokes the closure repeatedly and stops at the first
// error. Mode "retry": the callee may invoke the closure any number of times
// whatever it returns (a consumer that is called again after a failure); the
// state afterwards is the state after the last invocation (P_called tells
// whether there was one, P_err is its result), and the invariants have to be
// preserved by failing invocations too.
func (fr *Frame) callbackLoop(st *State, cl *Closure, pname string, env *SpecEnv, pos token.Pos, mode string) {
	x := fr.x
	ord := x.w.funcLitOrdinal(cl.fn)
	invKey := -ord
	label := fmt.Sprintf("callback %d", ord)
	if cl.fn.Synthetic == "range-over-func yield" && cl.fn.Parent() != nil {
		// the body of a range-over-func statement: its invariants are the
		// `loop N invariant` clauses of that statement (N counted among the
		// loops of the enclosing function, like every other loop)
		outer := cl.fn
		for outer.Parent() != nil {
			outer = outer.Parent()
		}
		for i, ls := range x.w.loopStmts(outer) {
			if ls == cl.fn.Syntax() {
				invKey = i + 1
				ord = 1000 + i + 1
				label = fmt.Sprintf("loop %d", i+1)
			}
		}
	}
	var invs []*Clause
	if top := x.top; top != nil {
		if oc := x.w.contractFor(top.outermost()); oc != nil {
			invs = oc.Inv[invKey]
		}
	}
	csig := cl.fn.Signature
	ci := &cbInfo{ord: ord}
	for k := 0; k < csig.Params().Len(); k++ {
		t := csig.Params().At(k).Type()
		var arrs []string
		for l, s := range leafSorts(t) {
			arrs = append(arrs, x.vc.declare(fmt.Sprintf("cb%d_a%d_%d", ord, k, l), arrSort(s)))
		}
		ci.args = append(ci.args, arrs)
		ci.ptypes = append(ci.ptypes, t)
	}
	if x.cbs == nil {
		x.cbs = map[int]*cbInfo{}
	}
	x.cbs[ord] = ci
	ci.count = "0"
	pre := st.clone()
	polarity := 0
	evalInv := func(s *State, n string, c *Clause) string {
		e := fr.specEnv(s)
		e.pol = polarity
		e.vars = map[string]*Val{}
		e.lookup = func(ss *State, name string) (*Val, bool) { return fr.lookupLocal(ss, name, cl.fn.Pos()) }
		e.cbOrd, e.cbN, e.entry = ord, n, pre
		g, err := e.evalBool(c.Expr)
		if err != nil {
			x.vc.diag("%s: %s invariant %q: %v", fr.fn.String(), label, c.Text, err)
			return "false"
		}
		return g
	}
	for _, c := range invs {
		x.oblige(st, "cb-entry", label+": "+c.Text, pos, evalInv(st, "0", c), c.Tags, false)
	}
	// havoc what an invocation may write
	nf := x.newFrame(cl.fn, fr)
	for i, fv := range cl.fn.FreeVars {
		if i < len(cl.bindings) {
			nf.freeVars[fv] = cl.bindings[i]
		}
	}
	all := &loopInfo{header: cl.fn.Blocks[0], body: map[*ssa.BasicBlock]bool{}}
	for _, b := range cl.fn.Blocks {
		all.body[b] = true
	}
	mods := nf.loopModifies(all)
	x.bumpAllocTop(st)
	if mods.events || mods.all {
		ne := x.vc.fresh("events", sInt)
		x.vc.assume(tCmp(">=", ne, st.events))
		st.events = ne
	}
	if mods.all {
		x.havocAllHeaps(st)
	} else {
		x.havocHeapsMatching(st, mods.heaps)
	}
	var cells []*Cell
	for c := range mods.cells {
		cells = append(cells, c)
	}
	sort.Slice(cells, func(i, j int) bool { return cells[i].id < cells[j].id })
	for _, c := range cells {
		nv := x.freshVal(c.name, c.ty)
		x.refFacts(st, nv)
		st.cells[c] = nv
	}
	n := x.vc.fresh("cbn", sInt)
	x.vc.assume(tCmp("<=", "0", n))
	st.pc = x.vc.def("pc", sBool, st.pc)
	polarity = -1
	for _, c := range invs {
		x.vc.assume(tImp(st.pc, evalInv(st, n, c)))
	}
	polarity = 0
	if cl.fn.Synthetic == "range-over-func yield" {
		// go/ssa's yield-state variable: READY whenever a well-behaved iterator
		// calls the body
		for i, fv := range cl.fn.FreeVars {
			if strings.HasPrefix(fv.Name(), "jump$") && i < len(cl.bindings) {
				if pp := x.ptrOf(cl.bindings[i]); pp != nil && pp.Base == pbCell {
					st.cells[pp.Cell] = mkInt(types.Typ[types.Int], "0")
				}
			}
		}
	}
	after := st.clone() // iteration over, no invocation failed
	// one more invocation
	var cargs []*Val
	for k := range ci.args {
		v := &Val{Ty: ci.ptypes[k], L: make([]string, len(ci.args[k]))}
		for l, a := range ci.args[k] {
			v.L[l] = tSel(a, n)
		}
		x.typeFacts(v)
		x.refFacts(st, v)
		cargs = append(cargs, v)
	}
	// facts the contract author assumes about every argument tuple (listed)
	if top := x.top; top != nil {
		if oc := x.w.contractFor(top.outermost()); oc != nil {
			for _, c := range oc.Inv[invKey-1000] {
				x.vc.assume(tImp(st.pc, evalInv(st, n, c)))
			}
		}
	}
	vals := fr.inlineCall(st, cl.fn, cl.bindings, cargs, pos)
	errT := "0"
	boolResult := false
	if len(vals) > 0 {
		errT = vals[len(vals)-1].L[0]
		if bt, ok := under(vals[len(vals)-1].Ty).(*types.Basic); ok && bt.Kind() == types.Bool {
			// a yield function: true = go on, false = stop
			boolResult = true
			errT = tIte(vals[len(vals)-1].T(), "0", "1")
		}
	}
	_ = boolResult
	x.vc.pcNow = st.pc
	if mode == "retry" {
		for _, c := range invs {
			x.oblige(st, "cb-pres", label+": "+c.Text, pos, evalInv(st, tAdd(n, "1"), c), c.Tags, false)
		}
		called := x.vc.fresh("cbcalled", sBool)
		none := pre.clone()
		none.pc = x.vc.def("pc", sBool, tAnd(pre.pc, tNot(called)))
		st.pc = x.vc.def("pc", sBool, tAnd(st.pc, called))
		m := x.mergeStates([]*State{none, st})
		if m == nil {
			st.pc = "false"
			return
		}
		*st = *m
		x.vc.pcNow = st.pc
		ci.count = x.vc.def("cbcount", sInt, tIte(called, tAdd(n, "1"), "0"))
		errTy := types.Universe.Lookup("error").Type()
		env.vars[pname+"_err"] = &Val{Ty: errTy, L: []string{tIte(called, errT, "0")}}
		env.vars[pname+"_called"] = mkBool(called)
		env.vars[pname+"_stopped"] = mkBool("false")
		return
	}
	cont := st.clone()
	cont.pc = x.vc.def("pc", sBool, tAnd(st.pc, tEq(errT, "0")))
	for _, c := range invs {
		x.oblige(cont, "cb-pres", label+": "+c.Text, pos, evalInv(cont, tAdd(n, "1"), c), c.Tags, false)
	}
	stopped := x.vc.fresh("cbstopped", sBool)
	after.pc = x.vc.def("pc", sBool, tAnd(after.pc, tNot(stopped)))
	st.pc = x.vc.def("pc", sBool, tAnd(st.pc, tNot(tEq(errT, "0")), stopped))
	m := x.mergeStates([]*State{after, st})
	if m == nil {
		st.pc = "false"
		return
	}
	*st = *m
	x.vc.pcNow = st.pc
	ci.count = x.vc.def("cbcount", sInt, tIte(stopped, tAdd(n, "1"), n))
	errTy := types.Universe.Lookup("error").Type()
	env.vars[pname+"_err"] = &Val{Ty: errTy, L: []string{tIte(stopped, errT, "0")}}
	env.vars[pname+"_stopped"] = mkBool(stopped)
}

// effectFreeFn: a function value whose call cannot change caller-visible state:
// a callback parameter declared `calls P pure`, or a closure with an empty body.
func (x *Exec) effectFreeFn(v any) bool {
	switch f := v.(type) {
	case *ParamFn:
		return x.top != nil && x.top.contract != nil && x.top.contract.Calls[f.name] == "pure"
	case *Closure:
		if f.fn.Blocks == nil {
			return false
		}
		for _, b := range f.fn.Blocks {
			for _, ins := range b.Instrs {
				switch ins.(type) {
				case *ssa.Return, *ssa.RunDefers, *ssa.DebugRef, *ssa.Alloc, *ssa.Jump:
				case *ssa.Store:
					// parameter spills only
					if _, ok := ins.(*ssa.Store).Addr.(*ssa.Alloc); !ok {
						return false
					}
				case *ssa.Call:
					if bi, ok := ins.(*ssa.Call).Call.Value.(*ssa.Builtin); !ok || bi.Name() != "ssa:deferstack" {
						return false
					}
				default:
					return false
				}
			}
		}
		return true
	case *mixedX:
		return x.effectFreeFn(f.a) && x.effectFreeFn(f.b)
	}
	return false
}

// crashCheck asserts the crash invariants of the function under verification
// after an effectful call.
func (fr *Frame) crashCheck(st *State, pos token.Pos, what string) {
	x := fr.x
	top := x.top
	if top == nil || top.contract == nil || len(top.contract.Crash) == 0 {
		return
	}
	for _, ci := range top.contract.Crash {
		env := top.specEnv(st)
		env.lookup = func(s *State, name string) (*Val, bool) { return top.lookupLocal(s, name, token.NoPos) }
		g, err := env.evalBool(ci.Expr)
		if err != nil {
			x.vc.diag("%s: crash_invariant: %v", top.fn.String(), err)
			g = "false"
		}
		x.oblige(st, "crash", "after "+what+": "+ci.Text, pos, g, ci.Tags, false)
	}
}

// ---------------------------------------------------------------------
// builtins

func (fr *Frame) callBuiltin(st *State, b *ssa.Builtin, c *ssa.CallCommon, args []*Val, pos token.Pos) []*Val {
	x := fr.x
	switch b.Name() {
	case "len":
		a := args[0]
		switch u := under(a.Ty).(type) {
		case *types.Basic:
			return []*Val{mkInt(types.Typ[types.Int], a.L[2])}
		case *types.Slice:
			return []*Val{mkInt(types.Typ[types.Int], a.L[2])}
		case *types.Array:
			return []*Val{mkInt(types.Typ[types.Int], num(u.Len()))}
		case *types.Pointer:
			return []*Val{mkInt(types.Typ[types.Int], num(under(u.Elem()).(*types.Array).Len()))}
		case *types.Map:
			return []*Val{mkInt(types.Typ[types.Int], x.mapCard(st, a))}
		case *types.Chan:
			return []*Val{x.freshVal("chanlen", types.Typ[types.Int])}
		}
	case "cap":
		a := args[0]
		switch u := under(a.Ty).(type) {
		case *types.Slice:
			return []*Val{mkInt(types.Typ[types.Int], a.L[3])}
		case *types.Array:
			return []*Val{mkInt(types.Typ[types.Int], num(u.Len()))}
		}
	case "append":
		return []*Val{fr.doAppend(st, args[0], args[1], pos)}
	case "copy":
		return []*Val{fr.doCopy(st, args[0], args[1])}
	case "min", "max":
		r := args[0]
		for _, a := range args[1:] {
			var c string
			if b.Name() == "min" {
				c = tCmp("<=", r.T(), a.T())
			} else {
				c = tCmp(">=", r.T(), a.T())
			}
			r = mkInt(r.Ty, tIte(c, r.T(), a.T()))
		}
		return []*Val{r}
	case "delete":
		fr.mapDelete(st, args[0], args[1], pos)
		return nil
	case "clear":
		// modelled as "anything may have changed"; the frame must allow the write
		if _, isMap := under(args[0].Ty).(*types.Map); isMap {
			fr.mapFrameCheck(st, args[0], x.mapInfo(args[0].Ty), pos)
		} else if x.top != nil && x.top.contract != nil && x.noObl == 0 {
			if ok, _ := x.frameAllow("*"); !ok {
				x.oblige(st, "frame", "clear "+x.w.nodeTextAt(pos), pos, "false", nil, false)
			}
		}
		x.havocAllHeaps(st)
		return nil
	case "print", "println", "close":
		return nil
	case "ssa:wrapnilchk":
		return []*Val{args[0]}
	case "ssa:deferstack":
		return []*Val{zeroVal(b.Type().(*types.Signature).Results().At(0).Type())}
	case "recover":
		return []*Val{zeroVal(b.Type().(*types.Signature).Results().At(0).Type())}
	}
	panic("builtin " + b.Name())
}

func (fr *Frame) doAppend(st *State, s, t *Val, pos token.Pos) *Val {
	x := fr.x
	et := sliceElem(s.Ty)
	// appended elements as (per leaf) source arrays
	var n string
	var srcArr []string
	var srcOff string
	ss := leafSorts(et)
	ln := leafNames(et)
	if isString(t.Ty) {
		n, srcArr, srcOff = t.L[2], []string{t.L[0]}, t.L[1]
	} else {
		n, srcOff = t.L[2], t.L[1]
		for j, srt := range ss {
			hn := "A_" + typeKey(et) + "_" + ln[j]
			srcArr = append(srcArr, tSel(x.heap(st, hn, arrSort(arrSort(srt))), t.L[0]))
		}
	}
	if n == "0" {
		return s
	}
	newLen := x.vc.def("len", sInt, tAdd(s.L[2], n))
	fits := tCmp("<=", newLen, s.L[3])
	fresh := x.vc.fresh("appref", sInt)
	x.vc.assume(tEq(fresh, tAdd(st.allocTop, "1")))
	st.allocTop = x.vc.def("allocTop", sInt, tIte(fits, st.allocTop, fresh))
	newCap := x.vc.fresh("appcap", sInt)
	x.vc.assume(tCmp(">=", newCap, newLen))
	ref := x.vc.def("ref", sInt, tIte(fits, s.L[0], fresh))
	for j, srt := range ss {
		hn := "A_" + typeKey(et) + "_" + ln[j]
		hs := arrSort(arrSort(srt))
		h := x.heap(st, hn, hs)
		old := tSel(h, s.L[0])
		upd := x.copyInto(arrSort(srt), old, tAdd(s.L[1], s.L[2]), srcArr[j], srcOff, n)
		st.heaps[hn] = x.vc.def(hn, hs, tSto(h, ref, upd))
	}
	if top := x.top; top != nil && top.contract != nil && x.noObl == 0 {
		// in-place append writes caller-visible memory
		allowed, rows := x.frameAllow("A_" + typeKey(et) + "_")
		if !allowed {
			goal := tOr(tNot(fits), tCmp(">", s.L[0], fr.entryAllocTop()))
			for _, r := range rows {
				goal = tOr(goal, tEq(s.L[0], r))
			}
			x.oblige(st, "frame", "append "+x.w.nodeTextAt(pos), pos, goal, nil, false)
		}
	}
	out := &Val{Ty: s.Ty, L: []string{ref, s.L[1], newLen, x.vc.def("cap", sInt, tIte(fits, s.L[3], newCap))}}
	if l, ok := s.X.(*ArrLink); ok {
		out.X = l
		x.writeBackLink(st, l)
	}
	return out
}

func (fr *Frame) doCopy(st *State, dst, src *Val) *Val {
	x := fr.x
	et := sliceElem(dst.Ty)
	ss := leafSorts(et)
	ln := leafNames(et)
	n := x.vc.def("ncopy", sInt, tIte(tCmp("<=", dst.L[2], src.L[2]), dst.L[2], src.L[2]))
	for j, srt := range ss {
		hn := "A_" + typeKey(et) + "_" + ln[j]
		hs := arrSort(arrSort(srt))
		h := x.heap(st, hn, hs)
		var sa string
		if isString(src.Ty) {
			sa = src.L[0]
		} else {
			sa = tSel(h, src.L[0])
		}
		upd := x.copyInto(arrSort(srt), tSel(h, dst.L[0]), dst.L[1], sa, src.L[1], n)
		st.heaps[hn] = x.vc.def(hn, hs, tSto(h, dst.L[0], upd))
	}
	fr.sliceWriteFrame(st, dst, token.NoPos, "copy")
	x.writeBack(st, dst)
	return mkInt(types.Typ[types.Int], n)
}

// sliceWriteFrame: writing through a slice touches its backing array.
func (fr *Frame) sliceWriteFrame(st *State, s *Val, pos token.Pos, what string) {
	x := fr.x
	top := x.top
	if top == nil || top.contract == nil || x.noObl > 0 {
		return
	}
	if _, ok := s.X.(*ArrLink); ok {
		return
	}
	et := sliceElem(s.Ty)
	allowed, rows := x.frameAllow("A_" + typeKey(et) + "_")
	if allowed {
		return
	}
	goal := tCmp(">", s.L[0], fr.entryAllocTop())
	for _, r := range rows {
		goal = tOr(goal, tEq(s.L[0], r))
	}
	x.oblige(st, "frame", what+" into "+typeKey(et), pos, goal, nil, false)
}

// ---------------------------------------------------------------------
// defers

func (fr *Frame) runDefers(st *State) {
	x := fr.x
	fr.deferSite++
	for i := len(fr.defers) - 1; i >= 0; i-- {
		d := fr.defers[i]
		// run under the condition that the defer statement was reached
		if d.pc == "false" {
			continue
		}
		c := &d.call.Call
		guard := d.pc
		sub := st.clone()
		if guard != st.pc {
			sub.pc = x.vc.def("pc", sBool, tAnd(st.pc, guard))
		}
		x.vc.pcNow = sub.pc
		// deferred calls run at every exit, also those the defer statement
		// does not reach: no reachability covers below here
		x.inDefer++
		if gc := fr.gateContract(); gc != nil && len(gc.Reach) > 0 {
			fr.runningDefer = d
			fr.reachCheck(sub, d.call, gc)
			fr.runningDefer = nil
		}
		if c.IsInvoke() {
			fr.callMethodByIface(sub, c.Method, append([]*Val{d.fnv}, d.args...), d.call.Pos())
		} else if b, ok := c.Value.(*ssa.Builtin); ok {
			fr.callBuiltin(sub, b, c, d.args, d.call.Pos())
		} else {
			fr.callValue(sub, d.fnv, d.args, d.call.Pos(), c.Signature())
		}
		x.inDefer--
		if guard == st.pc || impliesSyntactically(st.pc, guard) {
			sub.pc = st.pc
			*st = *sub
		} else {
			other := st.clone()
			other.pc = x.vc.def("pc", sBool, tAnd(st.pc, tNot(guard)))
			m := x.mergeStates([]*State{sub, other})
			pc := st.pc
			*st = *m
			st.pc = pc
			x.vc.pcNow = st.pc
		}
	}
}

func impliesSyntactically(pc, guard string) bool {
	return guard == "true" || pc == guard
}
