package main

import (
	"fmt"
	"go/ast"
	"go/token"
	"go/types"
	"sort"
	"strings"

	"golang.org/x/tools/go/ssa"
)

func (x *Exec) newFrame(fn *ssa.Function, parent *Frame) *Frame {
	fr := &Frame{x: x, fn: fn, regs: map[ssa.Value]*Val{}, cellOf: map[*ssa.Alloc]*Cell{}, freeVars: map[*ssa.FreeVar]*Val{},
		iters: map[ssa.Value]*Cell{}, decEntry: map[*ssa.BasicBlock]string{}, parent: parent}
	if parent != nil {
		fr.depth = parent.depth + 1
	}
	return fr
}

// isRotated: go/ssa emits `for i := range n` with the condition duplicated in
// the latch; the loop header is the body block.
func isRotated(li *loopInfo) bool {
	return li.header.Comment == "rangeint.body"
}

type edgeIn struct {
	pred *ssa.BasicBlock
	st   *State
}

// rpo returns the blocks in reverse postorder of the CFG without back edges.
func rpo(fn *ssa.Function) []*ssa.BasicBlock {
	seen := map[*ssa.BasicBlock]bool{}
	var post []*ssa.BasicBlock
	var dfs func(b *ssa.BasicBlock)
	dfs = func(b *ssa.BasicBlock) {
		seen[b] = true
		for _, s := range b.Succs {
			if !seen[s] && !s.Dominates(b) {
				dfs(s)
			}
		}
		post = append(post, b)
	}
	dfs(fn.Blocks[0])
	for i, j := 0, len(post)-1; i < j; i, j = i+1, j-1 {
		post[i], post[j] = post[j], post[i]
	}
	return post
}

func (fr *Frame) analyzeLoops() {
	fr.loops = map[*ssa.BasicBlock]*loopInfo{}
	fn := fr.fn
	for _, b := range fn.Blocks {
		for _, s := range b.Succs {
			if s.Dominates(b) {
				li := fr.loops[s]
				if li == nil {
					li = &loopInfo{header: s, body: map[*ssa.BasicBlock]bool{s: true}}
					fr.loops[s] = li
				}
				li.latches = append(li.latches, b)
				// natural loop: blocks reaching b without passing s
				var stack []*ssa.BasicBlock
				if !li.body[b] {
					li.body[b] = true
					stack = append(stack, b)
				}
				for len(stack) > 0 {
					n := stack[len(stack)-1]
					stack = stack[:len(stack)-1]
					for _, p := range n.Preds {
						if !li.body[p] {
							li.body[p] = true
							stack = append(stack, p)
						}
					}
				}
			}
		}
	}
	// map to source loop statements
	for _, li := range fr.loops {
		li.ord, li.stmt = fr.x.w.loopOrdinal(fn, li)
	}
}

// run executes the function body from st with the given arguments and returns
// the merged state at return together with the result values (nil state: no
// path returns).
func (fr *Frame) run(st *State, args []*Val) (*State, []*Val) {
	x := fr.x
	fn := fr.fn
	if len(args) != len(fn.Params) {
		panic(fmt.Sprintf("%s: %d args for %d params", fn, len(args), len(fn.Params)))
	}
	fr.args = args
	for i, p := range fn.Params {
		fr.regs[p] = args[i]
	}
	fr.analyzeLoops()
	order := rpo(fn)
	in := map[*ssa.BasicBlock][]edgeIn{}
	in[fn.Blocks[0]] = []edgeIn{{nil, st}}
	for _, b := range order {
		edges := in[b]
		var sts []*State
		var live []edgeIn
		for _, e := range edges {
			if e.st != nil && e.st.pc != "false" {
				sts = append(sts, e.st)
				live = append(live, e)
			}
		}
		if len(sts) == 0 {
			continue
		}
		// phis, evaluated on the incoming edges
		phiVals := map[*ssa.Phi]*Val{}
		for _, ins := range b.Instrs {
			phi, ok := ins.(*ssa.Phi)
			if !ok {
				break
			}
			var v *Val
			for i := len(live) - 1; i >= 0; i-- {
				e := live[i]
				idx := -1
				for k, p := range b.Preds {
					if p == e.pred {
						idx = k
					}
				}
				if idx < 0 {
					continue
				}
				ev := fr.val(e.st, phi.Edges[idx])
				if !types.Identical(ev.Ty, phi.Type()) {
					ev = &Val{Ty: phi.Type(), L: ev.L, X: ev.X}
				}
				if v == nil {
					v = ev
				} else {
					v = iteVal(e.st.pc, ev, v)
				}
			}
			phiVals[phi] = v
		}
		cur := x.mergeStates(sts)
		x.vc.pcNow = cur.pc
		for phi, v := range phiVals {
			fr.regs[phi] = x.defVal(phi.Name(), v)
		}
		if li := fr.loops[b]; li != nil {
			fr.enterLoop(cur, li)
		}
		// straight-line part
		n := len(b.Instrs)
		for _, ins := range b.Instrs[:n-1] {
			if cur.pc == "false" {
				break
			}
			fr.step(cur, ins)
		}
		if cur.pc == "false" {
			continue
		}
		send := func(succ *ssa.BasicBlock, s *State) {
			if succ.Dominates(b) {
				if li := fr.loops[succ]; li != nil {
					if _, isIf := b.Instrs[len(b.Instrs)-1].(*ssa.If); !isIf || !isRotated(li) {
						fr.backEdge(s, li, false)
					}
				}
				return
			}
			in[succ] = append(in[succ], edgeIn{b, s})
		}
		switch t := b.Instrs[n-1].(type) {
		case *ssa.Jump:
			send(b.Succs[0], cur)
		case *ssa.If:
			// rotated loops (range over int): the latch tests the condition;
			// the invariant must hold before every evaluation of it
			checked := map[*loopInfo]bool{}
			for _, s := range b.Succs {
				if s.Dominates(b) {
					if li := fr.loops[s]; li != nil && !checked[li] && isRotated(li) {
						checked[li] = true
						fr.backEdge(cur, li, true)
					}
				}
			}
			c := fr.val(cur, t.Cond).T()
			x.vc.pcNow = cur.pc
			thenSt := cur.clone()
			thenSt.pc = x.vc.def("pc", sBool, tAnd(cur.pc, c))
			elseSt := cur
			elseSt.pc = x.vc.def("pc", sBool, tAnd(cur.pc, tNot(c)))
			send(b.Succs[0], thenSt)
			send(b.Succs[1], elseSt)
		case *ssa.Return:
			vals := make([]*Val, len(t.Results))
			for i, r := range t.Results {
				vals[i] = fr.val(cur, r)
			}
			fr.rets = append(fr.rets, &retRec{cur, vals})
			fr.literalEnsures(cur, vals, t.Pos())
			if fr.depth == 0 {
				x.cover(cur, "return "+x.w.nodeTextAt(t.Pos()), t.Pos())
			}
		case *ssa.Panic:
			txt := x.w.nodeTextAt(t.Pos())
			if fr.depth > 0 {
				txt = shortName(fr.fn.String()) + ": " + txt
			}
			x.oblige(cur, "panic", txt, t.Pos(), "false", nil, true)
		default:
			fr.step(cur, b.Instrs[n-1])
		}
	}
	if len(fr.rets) == 0 {
		return nil, nil
	}
	var sts []*State
	for _, r := range fr.rets {
		sts = append(sts, r.st)
	}
	var vals []*Val
	nres := len(fr.rets[0].vals)
	for i := 0; i < nres; i++ {
		var v *Val
		for k := len(fr.rets) - 1; k >= 0; k-- {
			r := fr.rets[k]
			if r.st.pc == "false" {
				continue
			}
			if v == nil {
				v = r.vals[i]
			} else {
				v = iteVal(r.st.pc, r.vals[i], v)
			}
		}
		if v == nil {
			v = x.freshVal("dead", fn.Signature.Results().At(i).Type())
		}
		vals = append(vals, x.defVal("ret", v))
	}
	out := x.mergeStates(sts)
	return out, vals
}

// ---------------------------------------------------------------------
// loops

type loopMods struct {
	cells map[*Cell]bool
	heaps []string
	all   bool
	alloc bool
	events bool
}

func (fr *Frame) rootOf(v ssa.Value) ssa.Value {
	for {
		switch t := v.(type) {
		case *ssa.FieldAddr:
			v = t.X
		case *ssa.IndexAddr:
			v = t.X
		case *ssa.Slice:
			v = t.X
		case *ssa.ChangeType:
			v = t.X
		default:
			return v
		}
	}
}

// freeVarMayBeWritten: can running the closure fn change the captured variable
// fv itself? Only loads of the variable (and of its fields/elements) are
// harmless; a store through it, passing its address on, or capturing it in a
// nested closure that may write it count as writes.
func freeVarMayBeWritten(fn *ssa.Function, fv *ssa.FreeVar, depth int) bool {
	if fn.Blocks == nil || depth > 4 {
		return true
	}
	var addrWritten func(v ssa.Value, d int) bool
	addrWritten = func(v ssa.Value, d int) bool {
		if d > 8 || v.Referrers() == nil {
			return true
		}
		for _, r := range *v.Referrers() {
			switch u := r.(type) {
			case *ssa.UnOp:
				if u.Op != token.MUL {
					return true
				}
			case *ssa.DebugRef:
			case *ssa.FieldAddr:
				if addrWritten(u, d+1) {
					return true
				}
			case *ssa.IndexAddr:
				// &v[i] of an array variable
				if u.X == v && addrWritten(u, d+1) {
					return true
				}
			case *ssa.Store:
				return true
			case *ssa.MakeClosure:
				nf, _ := u.Fn.(*ssa.Function)
				for bi, b := range u.Bindings {
					if b == v {
						if nf == nil || bi >= len(nf.FreeVars) || freeVarMayBeWritten(nf, nf.FreeVars[bi], depth+1) {
							return true
						}
					}
				}
			default:
				return true
			}
		}
		return false
	}
	return addrWritten(fv, 0)
}

// heapPatOfAddr gives the heap pattern written by a store through addr.
func heapPatOfAddr(addr ssa.Value) string {
	switch t := addr.(type) {
	case *ssa.FieldAddr:
		if inner := heapPatOfAddr(t.X); strings.HasPrefix(inner, "A_") {
			return inner
		}
		return "H_" + typeKey(ptrElem(t.X.Type()))
	case *ssa.IndexAddr:
		if isSlice(t.X.Type()) {
			return "A_" + typeKey(sliceElem(t.X.Type()))
		}
		return heapPatOfAddr(t.X)
	}
	if isPointer(addr.Type()) {
		return "H_" + typeKey(ptrElem(addr.Type()))
	}
	return "*"
}

func (fr *Frame) cellOfRoot(root ssa.Value) *Cell {
	switch r := root.(type) {
	case *ssa.Alloc:
		return fr.cellOf[r]
	case *ssa.Global:
		return fr.x.globalCell(r)
	case *ssa.FreeVar:
		if v, ok := fr.freeVars[r]; ok {
			if p, ok := v.X.(*PtrPath); ok && p.Base == pbCell {
				return p.Cell
			}
		}
	}
	return nil
}

func (fr *Frame) loopModifies(li *loopInfo) *loopMods {
	m := &loopMods{cells: map[*Cell]bool{}}
	x := fr.x
	addPat := func(p string) {
		if p == "*" {
			m.all = true
			return
		}
		for _, q := range m.heaps {
			if q == p {
				return
			}
		}
		m.heaps = append(m.heaps, p)
	}
	markArg := func(a ssa.Value) {
		root := fr.rootOf(a)
		if c := fr.cellOfRoot(root); c != nil {
			m.cells[c] = true
		}
	}
	var blocks []*ssa.BasicBlock
	for b := range li.body {
		blocks = append(blocks, b)
	}
	sort.Slice(blocks, func(i, j int) bool { return blocks[i].Index < blocks[j].Index })
	// ghost variables updated by a gate (`reach ... then ghost.x = e`) may be
	// updated inside any loop of the function
	if gc := fr.gateContract(); gc != nil {
		// precise when the loop body is plain code: only the gates whose
		// statement (or callee) occurs in the body; conservative (all of them)
		// when the body creates closures or runs callees in place
		conservative := false
		texts := map[string]bool{}
		for _, b := range blocks {
			for _, ins := range b.Instrs {
				switch t := ins.(type) {
				case *ssa.MakeClosure:
					conservative = true
				case ssa.CallInstruction:
					cc := t.Common()
					if n := lastCallName(cc); n != "" {
						texts["call:"+n] = true
						texts["callname:"+n] = true
						texts[fmt.Sprintf("callnth:%s#%d", n, x.w.callOrdinal(fr.fn, ins.Pos(), n))] = true
					}
					if _, isBuiltin := cc.Value.(*ssa.Builtin); isBuiltin {
						// no callee code runs
					} else if sf := cc.StaticCallee(); !cc.IsInvoke() && (sf == nil || (sf.Blocks != nil && x.w.contractFor(sf) == nil)) {
						conservative = true
					}
				}
				if p := ins.Pos(); p.IsValid() {
					if txt := normText(x.w.stmtTextAt(p)); txt != "" {
						texts[txt] = true
					}
				}
			}
		}
		for _, rc := range gc.Reach {
			if rc.SetName == "" {
				continue
			}
			hit := conservative || texts[rc.Stmt]
			if hit && !conservative && rc.Nth > 0 && strings.HasPrefix(rc.Stmt, "call:") && !strings.Contains(rc.Stmt, ".") {
				// N "call:Name": only the loop that contains that very call
				hit = texts[fmt.Sprintf("callnth:%s#%d", strings.TrimPrefix(rc.Stmt, "call:"), rc.Nth)]
			}
			if !hit && strings.HasPrefix(rc.Stmt, "call:") {
				// qualified form call:X.Name
				if i := strings.LastIndex(rc.Stmt, "."); i > 0 && texts["callname:"+rc.Stmt[i+1:]] {
					hit = true
				}
			}
			if !hit && strings.HasSuffix(rc.Stmt, "...") {
				pre := strings.TrimSuffix(rc.Stmt, "...")
				for t := range texts {
					if strings.HasPrefix(t, pre) {
						hit = true
					}
				}
			}
			if hit {
				if c := x.ghostCell(rc.SetName); c != nil {
					m.cells[c] = true
				}
			}
		}
	}
	for _, b := range blocks {
		for _, ins := range b.Instrs {
			switch t := ins.(type) {
			case *ssa.Store:
				root := fr.rootOf(t.Addr)
				if c := fr.cellOfRoot(root); c != nil {
					m.cells[c] = true
				} else if _, isAlloc := root.(*ssa.Alloc); isAlloc {
					// allocated inside the loop
				} else {
					addPat(heapPatOfAddr(t.Addr))
				}
			case *ssa.MapUpdate:
				addPat(mapHeapKey(t.Map.Type()))
			case *ssa.Next:
				if c := fr.iters[t.Iter]; c != nil {
					m.cells[c] = true
				}
			case *ssa.Alloc, *ssa.MakeSlice, *ssa.MakeMap, *ssa.MakeChan, *ssa.MakeInterface, *ssa.Convert:
				m.alloc = true
			case *ssa.MakeClosure:
				cf, _ := t.Fn.(*ssa.Function)
				for bi, bnd := range t.Bindings {
					if cf != nil && bi < len(cf.FreeVars) && !freeVarMayBeWritten(cf, cf.FreeVars[bi], 0) {
						continue
					}
					markArg(bnd)
				}
			case *ssa.Go, *ssa.Send, *ssa.Select, *ssa.Defer:
				m.all = true
			case *ssa.Call:
				m.alloc = true
				for _, a := range t.Call.Args {
					markArg(a)
				}
				// last(f) cells: a call inside the loop overwrites them (a callee
				// that is executed in place may call anything)
				if _, isBuiltin := t.Call.Value.(*ssa.Builtin); isBuiltin {
					// len, cap, append, copy, ...: no callee code runs
				} else if sf := t.Call.StaticCallee(); !t.Call.IsInvoke() && (sf == nil || (sf.Blocks != nil && x.w.contractFor(sf) == nil)) {
					for _, cs := range x.lastCalls {
						for _, c := range cs {
							m.cells[c] = true
						}
					}
				} else {
					for _, c := range x.lastCalls[lastCallName(&t.Call)] {
						m.cells[c] = true
					}
				}
				eff := x.callEffects(fr, &t.Call, 0)
				if eff.all {
					m.all = true
				}
				for _, p := range eff.heaps {
					addPat(p)
				}
				for _, g := range eff.ghosts {
					if c := x.ghostCell(g); c != nil {
						m.cells[c] = true
					}
				}
				if eff.events || eff.all {
					m.events = true
				}
			}
		}
	}
	return m
}

type callEff struct {
	heaps  []string
	ghosts []string
	all    bool
	events bool
}

func (x *Exec) callEffects(fr *Frame, c *ssa.CallCommon, depth int) callEff {
	var e callEff
	if b, ok := c.Value.(*ssa.Builtin); ok {
		switch b.Name() {
		case "append", "copy":
			if isSlice(c.Args[0].Type()) {
				e.heaps = append(e.heaps, "A_"+typeKey(sliceElem(c.Args[0].Type())))
			}
		case "delete":
			e.heaps = append(e.heaps, mapHeapKey(c.Args[0].Type()))
		case "clear":
			e.all = true
		}
		return e
	}
	sig := c.Signature()
	fromContract := func(fc *FuncContract) {
		for _, a := range fc.Assigns {
			a, _ = splitAssign(a)
			if strings.HasPrefix(a, "ghost.") {
				e.ghosts = append(e.ghosts, strings.TrimPrefix(a, "ghost."))
			} else if a == "*" {
				e.all = true
			} else if strings.HasPrefix(a, "*") {
				// *param: the object a pointer parameter refers to
				e.all = true
				if sig != nil {
					names := paramNames(nil, sig)
					for i, n := range names {
						if n != strings.TrimPrefix(a, "*") {
							continue
						}
						var pt types.Type
						if sig.Recv() != nil {
							if i == 0 {
								pt = sig.Recv().Type()
							} else if i-1 < sig.Params().Len() {
								pt = sig.Params().At(i - 1).Type()
							}
						} else if i < sig.Params().Len() {
							pt = sig.Params().At(i).Type()
						}
						if pt != nil && isPointer(pt) {
							e.all = false
							e.heaps = append(e.heaps, "H_"+typeKey(ptrElem(pt)))
						}
					}
				}
			} else {
				e.heaps = append(e.heaps, a)
			}
		}
		if len(fc.Effects) > 0 {
			e.events = true
		}
	}
	if c.IsInvoke() {
		name := c.Method.FullName()
		if _, ok := intrinsics[name]; ok {
			return x.intrinsicEffects(name, c)
		}
		if fc := x.w.contractByName(name); fc != nil {
			fromContract(fc)
			return e
		}
		e.all = true
		return e
	}
	var fn *ssa.Function
	switch v := c.Value.(type) {
	case *ssa.Function:
		fn = v
	case *ssa.MakeClosure:
		fn = v.Fn.(*ssa.Function)
	case *ssa.UnOp:
		if g, ok := v.X.(*ssa.Global); ok {
			name := g.Pkg.Pkg.Path() + "." + g.Name()
			if _, ok := intrinsics[name]; ok {
				return x.intrinsicEffects(name, c)
			}
			if fc := x.w.contractByName(name); fc != nil {
				fromContract(fc)
				return e
			}
		}
	}
	if fn == nil {
		// a callback the contract declares effect-free (`calls NAME pure`)
		if top := x.top; top != nil && top.contract != nil {
			if n := lastCallName(c); n != "" && top.contract.Calls[n] == "pure" {
				if _, isGlobal := c.Value.(*ssa.Global); !isGlobal {
					return e
				}
			}
		}
		// local closure variable: look for the closure stored in the cell
		e.all = true
		return e
	}
	name := fn.String()
	if fn.Origin() != nil {
		name = fn.Origin().String()
	}
	if _, ok := intrinsics[name]; ok {
		return x.intrinsicEffects(name, c)
	}
	if fc := x.w.contractFor(fn); fc != nil && !fc.Inline {
		fromContract(fc)
		return e
	}
	if top := x.top; top != nil && top.contract != nil && top.contract.Calls[fn.Name()] == "pure" {
		return e // local assumption: effect-free (see callFunction)
	}
	if fn.Blocks == nil || depth > maxInlineDepth || hasLoop(fn) {
		// mirrors havocArgs
		for _, a := range c.Args {
			switch u := under(a.Type()).(type) {
			case *types.Pointer, *types.Interface, *types.Map, *types.Chan, *types.Signature:
				e.all = true
			case *types.Slice:
				if mayReachHeap(u.Elem()) {
					e.all = true
				} else {
					e.heaps = append(e.heaps, "A_"+typeKey(u.Elem()))
				}
			case *types.Struct:
				if mayReachHeap(a.Type()) {
					e.all = true
				}
			}
		}
		return e
	}
	// inlined body
	for _, b := range fn.Blocks {
		for _, ins := range b.Instrs {
			switch t := ins.(type) {
			case *ssa.Store:
				root := fr.rootOf(t.Addr)
				if _, isAlloc := root.(*ssa.Alloc); isAlloc {
					continue
				}
				p := heapPatOfAddr(t.Addr)
				if p == "*" {
					e.all = true
				} else {
					e.heaps = append(e.heaps, p)
				}
			case *ssa.MapUpdate:
				e.heaps = append(e.heaps, mapHeapKey(t.Map.Type()))
			case *ssa.Go, *ssa.Send, *ssa.Select:
				e.all = true
			case *ssa.Call:
				sub := x.callEffects(fr, &t.Call, depth+1)
				e.all = e.all || sub.all
				e.heaps = append(e.heaps, sub.heaps...)
				e.ghosts = append(e.ghosts, sub.ghosts...)
				e.events = e.events || sub.events
			case *ssa.Defer:
				sub := x.callEffects(fr, &t.Call, depth+1)
				e.all = e.all || sub.all
				e.heaps = append(e.heaps, sub.heaps...)
				e.ghosts = append(e.ghosts, sub.ghosts...)
			}
		}
	}
	return e
}

func (fr *Frame) enterLoop(st *State, li *loopInfo) {
	x := fr.x
	invs, dec := fr.loopClauses(li)
	label := fmt.Sprintf("loop %d", li.ord)
	if fr.loopPre == nil {
		fr.loopPre = map[*ssa.BasicBlock]*State{}
	}
	fr.loopPre[li.header] = st.clone()
	for _, c := range invs {
		env := fr.loopEnv(st, li)
		g, err := env.evalBool(c.Expr)
		if err != nil {
			x.vc.diag("%s: %s invariant %q: %v", fr.fn.String(), label, c.Text, err)
			g = "false"
		}
		x.oblige(st, "inv-entry", label+": "+c.Text, li.header.Instrs[0].Pos(), g, c.Tags, false)
	}
	mods := fr.loopModifies(li)
	if fr.loopPre == nil {
		fr.loopPre = map[*ssa.BasicBlock]*State{}
	}
	fr.loopPre[li.header] = st.clone()
	// havoc (allocation counter first: havocked references are bounded by it)
	if mods.alloc || mods.all {
		nt := x.vc.fresh("allocTop", sInt)
		x.vc.assume(tCmp(">=", nt, st.allocTop))
		st.allocTop = nt
	}
	if mods.events || mods.all {
		ne := x.vc.fresh("events", sInt)
		x.vc.assume(tCmp(">=", ne, st.events))
		st.events = ne
	}
	if mods.all {
		x.havocAllHeaps(st)
	} else {
		x.havocHeapsMatching(st, mods.heaps)
	}
	var cells []*Cell
	for c := range mods.cells {
		cells = append(cells, c)
	}
	sort.Slice(cells, func(i, j int) bool { return cells[i].id < cells[j].id })
	if x.w.verbose {
		var ns []string
		for _, c := range cells {
			ns = append(ns, c.name)
		}
		x.vc.diag("%s: %s havocs cells %v heaps %v all=%v", fr.fn.String(), label, ns, mods.heaps, mods.all)
	}
	for _, c := range cells {
		old := st.cells[c]
		nv := x.freshVal(c.name, c.ty)
		x.refFacts(st, nv)
		if old != nil {
			nv.X = old.X
			if it, ok := old.X.(*mapIter); ok {
				nv = &Val{Ty: old.Ty, L: []string{"0"}, X: x.havocMapIter(st, it)}
			}
		}
		st.cells[c] = nv
	}
	st.pc = x.vc.def("pc", sBool, st.pc)
	x.vc.pcNow = st.pc
	fr.autoLoopFacts(st, li)
	for _, c := range invs {
		env := fr.loopEnv(st, li).assuming()
		g, err := env.evalBool(c.Expr)
		if err != nil {
			continue
		}
		x.vc.assume(tImp(st.pc, g))
	}
	if fr.depth == 0 {
		x.cover(st, label+" body", li.header.Instrs[0].Pos())
	}
	if dec != nil {
		env := fr.loopEnv(st, li)
		v, err := env.evalVal(dec.Expr)
		if err == nil {
			fr.decEntry[li.header] = v.T()
		} else {
			x.vc.diag("%s: %s decreases: %v", fr.fn.String(), label, err)
		}
	}
	if len(invs) == 0 && x.w.verbose {
		x.vc.diag("%s: %s has no invariant (havoc only)", fr.fn.String(), label)
	}
}

func (fr *Frame) backEdge(st *State, li *loopInfo, assume bool) {
	x := fr.x
	invs, dec := fr.loopClauses(li)
	label := fmt.Sprintf("loop %d", li.ord)
	for _, c := range invs {
		env := fr.loopEnv(st, li)
		g, err := env.evalBool(c.Expr)
		if err != nil {
			g = "false"
		}
		x.oblige(st, "inv-pres", label+": "+c.Text, li.header.Instrs[0].Pos(), g, c.Tags, false)
		if assume {
			x.vc.assume(tImp(st.pc, g))
		}
	}
	if dec != nil {
		if d0, ok := fr.decEntry[li.header]; ok {
			env := fr.loopEnv(st, li)
			v, err := env.evalVal(dec.Expr)
			if err == nil {
				x.oblige(st, "decreases", label+": "+dec.Text, li.header.Instrs[0].Pos(), tAnd(tCmp("<=", "0", d0), tCmp("<", v.T(), d0)), dec.Tags, false)
			}
		}
	}
}

func (fr *Frame) outermost() *ssa.Function {
	fn := fr.fn
	for fn.Parent() != nil {
		fn = fn.Parent()
	}
	return fn
}

func (fr *Frame) loopClauses(li *loopInfo) ([]*Clause, *Clause) {
	c := fr.x.w.contractFor(fr.outermost())
	if c == nil {
		return nil, nil
	}
	return c.Inv[li.ord], c.Dec[li.ord]
}

// loopEnv: environment for loop clauses; names denote current values of the
// function's variables; the key variable of a range loop (and `_k`) denotes
// the number of completed iterations.
func (fr *Frame) loopEnv(st *State, li *loopInfo) *SpecEnv {
	env := fr.specEnv(st)
	var pos token.Pos
	if li.stmt != nil {
		switch s := li.stmt.(type) {
		case *ast.ForStmt:
			pos = s.Body.Lbrace
		case *ast.RangeStmt:
			pos = s.Body.Lbrace
		}
	}
	env.vars = map[string]*Val{}
	env.lookup = func(s *State, name string) (*Val, bool) { return fr.lookupLocal(s, name, pos) }
	env.entry = fr.loopPre[li.header]
	if k := fr.iterCount(st, li); k != "" {
		kv := mkInt(types.Typ[types.Int], k)
		env.vars["_k"] = kv
		if rs, ok := li.stmt.(*ast.RangeStmt); ok {
			if id, ok := rs.Key.(*ast.Ident); ok && id.Name != "_" {
				env.vars[id.Name] = kv
			}
		}
	}
	// range over a map: visited(k) is the set of keys already iterated
	for _, ins := range li.header.Instrs {
		if nx, ok := ins.(*ssa.Next); ok {
			if c := fr.iters[nx.Iter]; c != nil {
				if v, ok := st.cells[c]; ok {
					if it, ok := v.X.(*mapIter); ok {
						env.visited = it.visited
						env.visitedM = it.m
					}
				}
			}
		}
	}
	// enclosing range loops: _i<ord> is the index of their current element
	for _, outer := range fr.loops {
		if outer == li || !outer.body[li.header] {
			continue
		}
		if k := fr.iterCount(st, outer); k != "" {
			env.vars[fmt.Sprintf("_i%d", outer.ord)] = mkInt(types.Typ[types.Int], tSub(k, "1"))
		}
	}
	return env
}

// autoLoopFacts: facts about the hidden counters of range loops that hold by
// construction of the lowering (the counter is written only by the loop
// header / latch): rangeindex in [-1, len); rangeint.iter in [0, n).
func (fr *Frame) autoLoopFacts(st *State, li *loopInfo) {
	x := fr.x
	for _, ins := range li.header.Instrs {
		u, ok := ins.(*ssa.UnOp)
		if !ok {
			continue
		}
		a, ok := u.X.(*ssa.Alloc)
		if !ok {
			continue
		}
		c := fr.cellOf[a]
		if c == nil {
			continue
		}
		v, ok := st.cells[c]
		if !ok {
			continue
		}
		switch a.Comment {
		case "rangeindex":
			// header: t = *ri; t1 = t+1; *ri = t1; if t1 < len
			for _, j := range li.header.Instrs {
				if b, ok := j.(*ssa.BinOp); ok && b.Op == token.LSS {
					if _, inLoop := fr.definedInLoop(b.Y, li); !inLoop {
						n := fr.val(st, b.Y).T()
						x.vc.assume(tImp(st.pc, tAnd(tCmp("<=", "(- 1)", v.T()), tCmp("<", v.T(), tIte(tCmp(">=", n, "0"), n, "0")))))
					}
				}
			}
		case "rangeint.iter":
			for _, l := range li.latches {
				iff, ok := l.Instrs[len(l.Instrs)-1].(*ssa.If)
				if !ok {
					continue
				}
				if b, ok := iff.Cond.(*ssa.BinOp); ok && b.Op == token.LSS {
					if _, inLoop := fr.definedInLoop(b.Y, li); !inLoop {
						n := fr.val(st, b.Y).T()
						x.vc.assume(tImp(st.pc, tAnd(tCmp("<=", "0", v.T()), tCmp("<", v.T(), n))))
					}
				}
			}
		}
	}
}

func (fr *Frame) definedInLoop(v ssa.Value, li *loopInfo) (ssa.Instruction, bool) {
	if ins, ok := v.(ssa.Instruction); ok {
		if ins.Block() != nil && li.body[ins.Block()] {
			return ins, true
		}
	}
	return nil, false
}

// iterCount: number of completed iterations of a range loop at its header.
func (fr *Frame) iterCount(st *State, li *loopInfo) string {
	for _, ins := range li.header.Instrs {
		switch t := ins.(type) {
		case *ssa.UnOp:
			if a, ok := t.X.(*ssa.Alloc); ok && a.Comment == "rangeindex" {
				if c := fr.cellOf[a]; c != nil {
					if v, ok := st.cells[c]; ok {
						return tAdd(v.T(), "1")
					}
				}
			}
			if a, ok := t.X.(*ssa.Alloc); ok && a.Comment == "rangeint.iter" {
				if c := fr.cellOf[a]; c != nil {
					if v, ok := st.cells[c]; ok {
						return v.T()
					}
				}
			}
		case *ssa.Next:
			if c := fr.iters[t.Iter]; c != nil {
				if v, ok := st.cells[c]; ok {
					return v.L[0]
				}
			}
		}
	}
	return ""
}

func (fr *Frame) lookupLocal(st *State, name string, pos token.Pos) (*Val, bool) {
	x := fr.x
	for f := fr; f != nil; f = f.parent {
		var best *ssa.Alloc
		obj := x.w.scopeObject(f.fn, pos, name)
		for _, a := range f.allocs {
			if a.Comment != name {
				continue
			}
			if obj != nil && a.Pos() == obj.Pos() {
				best = a
				break
			}
			if _, ok := st.cells[f.cellOf[a]]; ok {
				best = a
			}
		}
		if best != nil {
			c := f.cellOf[best]
			if v, ok := st.cells[c]; ok {
				return v, true
			}
			// not yet spilled in this (earlier) state: parameters fall back to
			// their entry values
			isParam := false
			for i, p := range f.fn.Params {
				if p.Name() == name && i < len(f.args) && best.Pos() == p.Pos() {
					isParam = true
				}
			}
			if !isParam {
				return nil, false
			}
		}
		// variables that live in the heap because their address escapes
		for _, a := range f.heapAllocs {
			if a.Comment == name {
				if pv, ok := f.regs[a]; ok {
					return x.loadPath(st, x.ptrOf(pv)), true
				}
			}
		}
		for fv, v := range f.freeVars {
			if fv.Name() == name {
				if p, ok := v.X.(*PtrPath); ok {
					return x.loadPath(st, p), true
				}
				return v, true
			}
		}
		// parameters that were not spilled
		for i, p := range f.fn.Params {
			if p.Name() == name && i < len(f.args) {
				return f.args[i], true
			}
		}
		if f.parent == nil || f.fn.Parent() == nil {
			break
		}
	}
	return nil, false
}

// specEnv: environment for ensures / crash clauses of this frame's function.
func (fr *Frame) specEnv(st *State) *SpecEnv {
	env := &SpecEnv{x: fr.x, st: st, old: fr.entry, pkg: fnTypesPkg(fr.fn), vars: map[string]*Val{}, frame: fr}
	for i, p := range fr.fn.Params {
		if i < len(fr.args) {
			env.vars[p.Name()] = fr.args[i]
		}
	}
	return env
}

// ---------------------------------------------------------------------
// range / next

func (fr *Frame) execRange(st *State, in *ssa.Range) {
	x := fr.x
	over := fr.val(st, in.X)
	c := x.newCell("iter", types.Typ[types.Int], in.Pos())
	fr.iters[in] = c
	switch {
	case isString(in.X.Type()):
		st.cells[c] = &Val{Ty: types.Typ[types.Int], L: []string{"0"}, X: &IterState{cell: c, kind: "string", over: over}}
	case isMap(in.X.Type()):
		x.rangeMapInit(st, c, over)
	default:
		panic("range over " + in.X.Type().String())
	}
	fr.set(in, &Val{Ty: in.Type(), L: []string{"0"}, X: &IterState{cell: c, over: over}})
}

func (fr *Frame) execNext(st *State, in *ssa.Next) {
	x := fr.x
	c := fr.iters[in.Iter]
	if c == nil {
		panic("next on unknown iterator")
	}
	rng := in.Iter.(*ssa.Range)
	over := fr.val(st, rng.X)
	tup := in.Type().(*types.Tuple)
	if in.IsString {
		pos := st.cells[c].L[0]
		ok := tCmp("<", pos, over.L[2])
		b0 := tSel(over.L[0], tAdd(over.L[1], pos))
		x.vc.assume(inRange(types.Typ[types.Uint8], b0))
		adv := x.vc.fresh("runew", sInt)
		r := x.vc.fresh("rune", sInt)
		// abstract UTF-8 decoding: ASCII bytes decode to themselves, width 1;
		// otherwise 1..4 bytes and a rune >= 0x80 (or RuneError)
		x.vc.assume(tImp(ok, tAnd(tCmp("<=", "1", adv), tCmp("<=", adv, "4"), tCmp("<=", tAdd(pos, adv), over.L[2]),
			tImp(tCmp("<", b0, "128"), tAnd(tEq(adv, "1"), tEq(r, b0))),
			tImp(tCmp(">=", b0, "128"), tAnd(tCmp(">=", r, "128"), tCmp("<=", r, "1114111"))))))
		np := x.vc.def("iter", sInt, tIte(ok, tAdd(pos, adv), pos))
		st.cells[c] = &Val{Ty: types.Typ[types.Int], L: []string{np}, X: st.cells[c].X}
		out := &Val{Ty: tup, L: []string{ok, pos, r}}
		fr.set(in, out)
		return
	}
	fr.set(in, x.rangeMapNext(st, c, over, tup))
}

func (fr *Frame) execSend(st *State, in *ssa.Send) {
	x := fr.x
	v := fr.val(st, in.X)
	_ = v
	// a send is an effect; contracts may attach a requirement to it
	x.w.sendHook(fr, st, in)
}

// ---------------------------------------------------------------------
// top level

func (x *Exec) modelVarsOf(fr *Frame) []ModelVar { return fr.modelVars() }

func (fr *Frame) modelVars() []ModelVar {
	var out []ModelVar
	for i, p := range fr.fn.Params {
		if i >= len(fr.args) {
			break
		}
		ln := leafNames(p.Type())
		for j, t := range fr.args[i].L {
			n := p.Name()
			if j < len(ln) && ln[j] != "" {
				n += "." + ln[j]
			}
			out = append(out, ModelVar{Name: n, Term: t})
		}
	}
	return out
}

// literalEnsures: `literal K ensures e` of the function under verification,
// checked where its function literal $K returns (run in place or on its own).
func (fr *Frame) literalEnsures(st *State, vals []*Val, pos token.Pos) {
	x := fr.x
	if fr.fn.Parent() == nil {
		return
	}
	gc := fr.gateContract()
	if gc == nil || len(gc.LitEns) == 0 {
		return
	}
	root := fr.fn
	for root.Parent() != nil {
		root = root.Parent()
	}
	suffix := strings.TrimPrefix(fr.fn.Name(), root.Name()+"$")
	if !pos.IsValid() {
		pos = fr.fn.Pos()
	}
	for _, lc := range gc.LitEns {
		if lc.Lit != suffix {
			continue
		}
		env := fr.specEnv(st)
		env.vars = map[string]*Val{}
		env.lookup = func(s *State, name string) (*Val, bool) { return fr.lookupLocal(s, name, pos) }
		for i, v := range vals {
			env.vars[fmt.Sprintf("r%d", i)] = v
			env.vars[fmt.Sprintf("result%d", i)] = v
		}
		if len(vals) == 1 {
			env.vars["result"] = vals[0]
		}
		g, err := env.evalBool(lc.Clause.Expr)
		if err != nil {
			x.vc.diag("%s: literal %s ensures %q: %v", fr.fn.String(), lc.Lit, lc.Clause.Text, err)
			g = "false"
		}
		x.oblige(st, "literal", "$"+lc.Lit+" returns: "+lc.Clause.Text, pos, g, lc.Clause.Tags, false)
		lc.Clause.Label = "bound"
	}
}

// fnSSAPkg: the package a function belongs to; an instance of a generic
// function (and the literals inside it) has none of its own - its origin's.
func fnSSAPkg(fn *ssa.Function) *ssa.Package {
	for f := fn; f != nil; f = f.Parent() {
		if f.Pkg != nil {
			return f.Pkg
		}
		if o := f.Origin(); o != nil && o.Pkg != nil {
			return o.Pkg
		}
	}
	return nil
}

func fnTypesPkg(fn *ssa.Function) *types.Package {
	if p := fnSSAPkg(fn); p != nil {
		return p.Pkg
	}
	return nil
}
