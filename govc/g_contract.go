package main

// Contract files: comment-only Go files (//go:build verif) holding `//@` lines.

import (
	"bufio"
	"fmt"
	"go/ast"
	"go/parser"
	"os"
	"regexp"
	"strconv"
	"strings"
	"unicode"
)

type Clause struct {
	Kind  string // requires ensures invariant decreases crash_invariant lemma axiom
	Tags  []string
	Text  string
	Expr  ast.Expr
	Loop  int
	File  string
	Line  int
	Label string
	Assumed bool // `assumes`: a postcondition callers may use that is not checked on the body (listed as an assumption)
}

type FuncContract struct {
	Key      string // as written after `func`
	PkgPath  string
	File     string
	Line     int
	Requires []*Clause
	Ensures  []*Clause
	Inv      map[int][]*Clause
	Dec      map[int]*Clause
	Crash    []*Clause
	NoPanic  bool
	NPTags   []string
	Assigns  []string // heap name patterns; "*" = everything
	HasAssigns bool
	Pure     bool
	Trusted  bool
	Inline   bool
	Opaque   bool // never inline even when small
	CalleeEns map[string][]*Clause // `callee NAME ensures e`: an extra postcondition assumed for calls to NAME made by this function (local refinement of a library summary; listed as an assumption)
	CalleeAsg map[string][]string  // `callee NAME assigns ghost.x, ...`
	LitReq   []*LitClause // `literal K requires e`: assumed at the entry of literal $K when it is verified on its own
	LitEns   []*LitClause // `literal K ensures e`: checked wherever function literal $K of this function returns (r0.. = its results)
	Guarded  []*GuardClause // `guarded HEAP by e`: every read or write of HEAP by this function needs e (lock discipline)
	Abstract map[string]bool // callees (unqualified names) whose postconditions are NOT used when verifying this function (keeps heavy spec functions out of its VCs; dropping assumptions is sound)
	Sticky   bool // single-result method: once non-nil/true for a receiver, it stays so (e.g. context.Context.Err)
	Effects  []string
	Calls    map[string]string // param name -> once|any|foreach
	Results  []string          // names for unnamed results (r0, r1 default)
	Unroll   map[int]int
	Reach    []*ReachClause
	Sends    []*Clause // condition every value sent on a channel must satisfy (over `sent`)
	used     bool
	merged   bool // this block's clauses were added to another block for the same function: not verified on its own
}

// LitClause: a postcondition of a function literal (closure) written inside
// the function under contract; K is the literal's go/ssa suffix ("1", "2", "1$1").
type LitClause struct {
	Lit    string
	Clause *Clause
}

// GuardClause: heap locations matching Pat may be read or written by the
// function only while Clause holds (e.g. ghost.held: the protecting mutex is held).
type GuardClause struct {
	Pat    string
	Clause *Clause
}

// ReachClause: the statement with the given source text may be reached only
// when the condition holds (a gate / dominance obligation).
type ReachClause struct {
	SetName string  // ghost variable assigned when the statement is passed ("" = none)
	SetExpr *Clause // its new value
	Optional bool // `never`: need not match any statement
	Nth    int // 0: every statement with this text; k>0: only the k-th in source order
	Stmt   string
	Clause *Clause
}

type SpecParam struct {
	Name string
	Type ast.Expr
}

type SpecFunc struct {
	Name    string
	PkgPath string
	Params  []SpecParam
	Ret     ast.Expr
	Body    ast.Expr
	Text    string
	Rec     bool
	File    string
	Line    int
}

type GhostVar struct {
	Name    string
	PkgPath string
	Type    ast.Expr
	File    string
	Line    int
}

type GlobalFact struct {
	Clause *Clause
	PkgPath string
}

type ContractFile struct {
	PkgPath string
	PkgName string
	Funcs   []*FuncContract
	Specs   []*SpecFunc
	Ghosts  []*GhostVar
	Lemmas  []*Clause
	Axioms  []*Clause
	BVLemmas []*Clause
}

var clauseKeywords = map[string]bool{
	"func": true, "spec": true, "ghost": true, "lemma": true, "axiom": true, "bvlemma": true,
	"requires": true, "ensures": true, "assumes": true, "assumes_pre": true, "guarded": true, "literal": true, "never": true, "loop": true, "callback": true, "nopanic": true,
	"assigns": true, "effects": true, "calls": true, "pure": true,
	"trusted": true, "inline": true, "reach": true, "sends": true, "opaque": true, "sticky": true, "abstract": true, "callee": true, "crash_invariant": true, "results": true,
}

var tagRe = regexp.MustCompile(`^([a-z_]+)\[([A-Za-z0-9_,\- ]+)\]`)

// parseContractFile reads one contract file. pkgPath is the import path of the
// package it annotates.
func parseContractFile(path, pkgPath string) (*ContractFile, error) {
	f, err := os.Open(path)
	if err != nil {
		return nil, err
	}
	defer f.Close()
	cf := &ContractFile{PkgPath: pkgPath}
	type rawLine struct {
		text string
		line int
	}
	var logical []rawLine
	sc := bufio.NewScanner(f)
	sc.Buffer(make([]byte, 1<<20), 1<<20)
	ln := 0
	for sc.Scan() {
		ln++
		s := strings.TrimSpace(sc.Text())
		if strings.HasPrefix(s, "package ") {
			cf.PkgName = strings.TrimSpace(strings.TrimPrefix(s, "package "))
			continue
		}
		if !strings.HasPrefix(s, "//@") {
			continue
		}
		s = strings.TrimSpace(s[3:])
		if s == "" {
			continue
		}
		// strip trailing comment `-- ...`
		if i := strings.Index(s, " -- "); i >= 0 {
			s = strings.TrimSpace(s[:i])
		}
		w := firstWord(s)
		if clauseKeywords[w] {
			logical = append(logical, rawLine{s, ln})
		} else if len(logical) > 0 {
			logical[len(logical)-1].text += " " + s
		} else {
			return nil, fmt.Errorf("%s:%d: continuation without clause", path, ln)
		}
	}
	var cur *FuncContract
	for _, rl := range logical {
		s := rl.text
		w := firstWord(s)
		var tags []string
		if m := tagRe.FindStringSubmatch(s); m != nil {
			w = m[1]
			for _, t := range strings.Split(m[2], ",") {
				tags = append(tags, strings.TrimSpace(t))
			}
			s = w + " " + strings.TrimSpace(s[len(m[0]):])
		}
		rest := strings.TrimSpace(strings.TrimPrefix(s, w))
		mk := func(kind, text string) (*Clause, error) {
			c := &Clause{Kind: kind, Tags: tags, Text: text, File: path, Line: rl.line}
			e, err := parseSpecExpr(text)
			if err != nil {
				return nil, fmt.Errorf("%s:%d: %v in %q", path, rl.line, err, text)
			}
			c.Expr = e
			return c, nil
		}
		needCur := func() error {
			if cur == nil {
				return fmt.Errorf("%s:%d: clause %q outside a func block", path, rl.line, w)
			}
			return nil
		}
		switch w {
		case "func":
			cur = &FuncContract{Key: rest, PkgPath: pkgPath, File: path, Line: rl.line, Inv: map[int][]*Clause{}, Dec: map[int]*Clause{}, Calls: map[string]string{}, Unroll: map[int]int{}}
			cf.Funcs = append(cf.Funcs, cur)
		case "spec":
			sf, err := parseSpecFunc(strings.TrimSpace(strings.TrimPrefix(rest, "func")), path, rl.line)
			if err != nil {
				return nil, err
			}
			sf.PkgPath = pkgPath
			cf.Specs = append(cf.Specs, sf)
			cur = nil
		case "ghost":
			r := strings.TrimSpace(strings.TrimPrefix(rest, "var"))
			parts := strings.Fields(r)
			if len(parts) < 2 {
				return nil, fmt.Errorf("%s:%d: ghost var NAME TYPE", path, rl.line)
			}
			te, err := parser.ParseExpr(strings.Join(parts[1:], " "))
			if err != nil {
				return nil, fmt.Errorf("%s:%d: %v", path, rl.line, err)
			}
			cf.Ghosts = append(cf.Ghosts, &GhostVar{Name: parts[0], PkgPath: pkgPath, Type: te, File: path, Line: rl.line})
			cur = nil
		case "bvlemma":
			i := strings.Index(rest, ":")
			if i < 0 {
				return nil, fmt.Errorf("%s:%d: bvlemma NAME: [forall v T, ... ::] expr", path, rl.line)
			}
			c := &Clause{Kind: "bvlemma", Tags: tags, Text: strings.TrimSpace(rest[i+1:]), File: path, Line: rl.line}
			c.Label = strings.TrimSpace(rest[:i])
			cf.BVLemmas = append(cf.BVLemmas, c)
			cur = nil
		case "lemma", "axiom":
			i := strings.Index(rest, ":")
			if i < 0 {
				return nil, fmt.Errorf("%s:%d: %s NAME: expr", path, rl.line, w)
			}
			c, err := mk(w, strings.TrimSpace(rest[i+1:]))
			if err != nil {
				return nil, err
			}
			c.Label = strings.TrimSpace(rest[:i])
			if w == "lemma" {
				cf.Lemmas = append(cf.Lemmas, c)
			} else {
				cf.Axioms = append(cf.Axioms, c)
			}
			cur = nil
		case "requires", "ensures", "crash_invariant", "sends", "assumes", "assumes_pre":
			if err := needCur(); err != nil {
				return nil, err
			}
			if w == "assumes_pre" {
				// a fact about the inputs that holds in every execution for a reason
				// outside the logic (e.g. no slice is larger than the address space):
				// assumed in the body, not demanded of callers, listed as an assumption
				c, err := mk("requires", rest)
				if err != nil {
					return nil, err
				}
				c.Assumed = true
				cur.Requires = append(cur.Requires, c)
				continue
			}
			if w == "assumes" {
				c, err := mk("ensures", rest)
				if err != nil {
					return nil, err
				}
				c.Assumed = true
				cur.Ensures = append(cur.Ensures, c)
				continue
			}
			c, err := mk(w, rest)
			if err != nil {
				return nil, err
			}
			switch w {
			case "sends":
				cur.Sends = append(cur.Sends, c)
			case "requires":
				cur.Requires = append(cur.Requires, c)
			case "ensures":
				cur.Ensures = append(cur.Ensures, c)
			default:
				cur.Crash = append(cur.Crash, c)
			}
		case "loop", "callback":
			if err := needCur(); err != nil {
				return nil, err
			}
			fs := strings.Fields(rest)
			if len(fs) < 3 {
				return nil, fmt.Errorf("%s:%d: loop N invariant|decreases expr", path, rl.line)
			}
			n, err := strconv.Atoi(fs[0])
			if err != nil {
				return nil, fmt.Errorf("%s:%d: loop ordinal: %v", path, rl.line, err)
			}
			if w == "callback" {
				n = -n // callback ordinals live in the negative keys of Inv
			}
			afterN := strings.TrimSpace(strings.TrimPrefix(rest, fs[0]))
			kw := fs[1]
			if m := tagRe.FindStringSubmatch(afterN); m != nil {
				kw = m[1]
				for _, t := range strings.Split(m[2], ",") {
					tags = append(tags, strings.TrimSpace(t))
				}
				afterN = kw + " " + strings.TrimSpace(afterN[len(m[0]):])
			}
			body := strings.TrimSpace(strings.TrimPrefix(afterN, kw))
			switch kw {
			case "assume":
				c, err := mk("assume", body)
				if err != nil {
					return nil, err
				}
				c.Loop = n
				cur.Inv[n-1000] = append(cur.Inv[n-1000], c)
			case "invariant":
				c, err := mk("invariant", body)
				if err != nil {
					return nil, err
				}
				c.Loop = n
				cur.Inv[n] = append(cur.Inv[n], c)
			case "decreases":
				c, err := mk("decreases", body)
				if err != nil {
					return nil, err
				}
				c.Loop = n
				cur.Dec[n] = c
			case "unroll":
				k, err := strconv.Atoi(body)
				if err != nil {
					return nil, fmt.Errorf("%s:%d: unroll bound: %v", path, rl.line, err)
				}
				cur.Unroll[n] = k
			default:
				return nil, fmt.Errorf("%s:%d: unknown loop clause %q", path, rl.line, fs[1])
			}
		case "reach", "never":
			if err := needCur(); err != nil {
				return nil, err
			}
			// reach "<statement text>" only_if <expr>
			q := strings.TrimSpace(rest)
			optional := false
			if w == "never" {
				// never "call:NAME": the function makes no such call (a gate with
				// the condition false that need not match anything)
				q += " only_if false"
				optional = true
			}
			nth := 0
			if len(q) > 0 && q[0] >= '1' && q[0] <= '9' {
				j := 0
				for j < len(q) && q[j] >= '0' && q[j] <= '9' {
					j++
				}
				nth, _ = strconv.Atoi(q[:j])
				q = strings.TrimSpace(q[j:])
			}
			if !strings.HasPrefix(q, "\"") {
				return nil, fmt.Errorf("%s:%d: reach \"<statement>\" only_if <expr>", path, rl.line)
			}
			end := -1
			for i := 1; i < len(q); i++ {
				if q[i] == '\\' {
					i++
					continue
				}
				if q[i] == '"' {
					end = i
					break
				}
			}
			if end < 0 {
				return nil, fmt.Errorf("%s:%d: unterminated statement text", path, rl.line)
			}
			stmt, err := strconv.Unquote(q[:end+1])
			if err != nil {
				return nil, fmt.Errorf("%s:%d: %v", path, rl.line, err)
			}
			cond := strings.TrimSpace(q[end+1:])
			if !strings.HasPrefix(cond, "only_if") {
				return nil, fmt.Errorf("%s:%d: missing only_if", path, rl.line)
			}
			condText := strings.TrimSpace(strings.TrimPrefix(cond, "only_if"))
			// optional ghost update performed when the statement is passed:
			//   only_if <expr> then ghost.<name> = <expr>
			setName := ""
			var setClause *Clause
			if i := strings.Index(condText, " then ghost."); i >= 0 {
				upd := strings.TrimSpace(condText[i+len(" then "):])
				condText = strings.TrimSpace(condText[:i])
				eq := strings.Index(upd, "=")
				if eq < 0 {
					return nil, fmt.Errorf("%s:%d: then ghost.<name> = <expr> expected", path, rl.line)
				}
				setName = strings.TrimSpace(strings.TrimPrefix(upd[:eq], "ghost."))
				sc, err := mk("reach", strings.TrimSpace(upd[eq+1:]))
				if err != nil {
					return nil, err
				}
				setClause = sc
			}
			c, err := mk("reach", condText)
			if err != nil {
				return nil, err
			}
			cur.Reach = append(cur.Reach, &ReachClause{Nth: nth, Stmt: normText(stmt), Clause: c, SetName: setName, SetExpr: setClause, Optional: optional})
		case "nopanic":
			if err := needCur(); err != nil {
				return nil, err
			}
			cur.NoPanic = true
			cur.NPTags = append(cur.NPTags, tags...)
		case "assigns":
			if err := needCur(); err != nil {
				return nil, err
			}
			cur.HasAssigns = true
			for _, a := range splitTop(rest) {
				a = strings.TrimSpace(a)
				if a != "" && a != "none" {
					cur.Assigns = append(cur.Assigns, a)
				}
			}
		case "effects":
			if err := needCur(); err != nil {
				return nil, err
			}
			for _, a := range strings.Split(rest, ",") {
				cur.Effects = append(cur.Effects, strings.TrimSpace(a))
			}
		case "calls":
			if err := needCur(); err != nil {
				return nil, err
			}
			fs := strings.Fields(rest)
			if len(fs) != 2 {
				return nil, fmt.Errorf("%s:%d: calls PARAM once|loop|retry|pure", path, rl.line)
			}
			switch fs[1] {
			case "once", "loop", "retry", "pure":
			default:
				// an unknown mode used to switch off the havoc of what the closure
				// captures without running it - unsound; rejected
				return nil, fmt.Errorf("%s:%d: calls %s %s: unknown mode (once|loop|retry|pure)", path, rl.line, fs[0], fs[1])
			}
			cur.Calls[fs[0]] = fs[1]
		case "results":
			if err := needCur(); err != nil {
				return nil, err
			}
			for _, a := range strings.Split(rest, ",") {
				cur.Results = append(cur.Results, strings.TrimSpace(a))
			}
		case "pure":
			if err := needCur(); err != nil {
				return nil, err
			}
			cur.Pure = true
			if strings.Contains(rest, "inline") {
				cur.Inline = true
			}
		case "inline":
			if err := needCur(); err != nil {
				return nil, err
			}
			cur.Inline = true
		case "opaque":
			if err := needCur(); err != nil {
				return nil, err
			}
			cur.Opaque = true
		case "sticky":
			if err := needCur(); err != nil {
				return nil, err
			}
			cur.Sticky = true
		case "callee":
			if err := needCur(); err != nil {
				return nil, err
			}
			fs := strings.Fields(rest)
			if len(fs) < 3 || (fs[1] != "ensures" && fs[1] != "assigns") {
				return nil, fmt.Errorf("%s:%d: callee NAME ensures EXPR | callee NAME assigns LIST", path, rl.line)
			}
			body := strings.TrimSpace(strings.TrimPrefix(strings.TrimSpace(strings.TrimPrefix(rest, fs[0])), fs[1]))
			if fs[1] == "ensures" {
				c, err := mk("ensures", body)
				if err != nil {
					return nil, err
				}
				c.Assumed = true
				if cur.CalleeEns == nil {
					cur.CalleeEns = map[string][]*Clause{}
				}
				cur.CalleeEns[fs[0]] = append(cur.CalleeEns[fs[0]], c)
			} else {
				if cur.CalleeAsg == nil {
					cur.CalleeAsg = map[string][]string{}
				}
				for _, a := range strings.Split(body, ",") {
					if a = strings.TrimSpace(a); a != "" {
						cur.CalleeAsg[fs[0]] = append(cur.CalleeAsg[fs[0]], a)
					}
				}
			}
		case "literal":
			if err := needCur(); err != nil {
				return nil, err
			}
			fs := strings.Fields(rest)
			if len(fs) < 3 {
				return nil, fmt.Errorf("%s:%d: literal K ensures expr", path, rl.line)
			}
			afterK := strings.TrimSpace(strings.TrimPrefix(rest, fs[0]))
			if m := tagRe.FindStringSubmatch(afterK); m != nil {
				for _, t := range strings.Split(m[2], ",") {
					tags = append(tags, strings.TrimSpace(t))
				}
				afterK = m[1] + " " + strings.TrimSpace(afterK[len(m[0]):])
			}
			if strings.HasPrefix(afterK, "requires") {
				// holds whenever the literal starts to run (by definition of the
				// ghost state it mentions, or by the code that calls it): assumed
				// where the literal is verified on its own, listed
				c, err := mk("requires", strings.TrimSpace(strings.TrimPrefix(afterK, "requires")))
				if err != nil {
					return nil, err
				}
				cur.LitReq = append(cur.LitReq, &LitClause{Lit: strings.TrimPrefix(fs[0], "$"), Clause: c})
				continue
			}
			if !strings.HasPrefix(afterK, "ensures") {
				return nil, fmt.Errorf("%s:%d: literal K ensures|requires expr", path, rl.line)
			}
			c, err := mk("ensures", strings.TrimSpace(strings.TrimPrefix(afterK, "ensures")))
			if err != nil {
				return nil, err
			}
			cur.LitEns = append(cur.LitEns, &LitClause{Lit: strings.TrimPrefix(fs[0], "$"), Clause: c})
		case "guarded":
			if err := needCur(); err != nil {
				return nil, err
			}
			i := strings.Index(rest, " by ")
			if i < 0 {
				return nil, fmt.Errorf("%s:%d: guarded HEAP by expr", path, rl.line)
			}
			c, err := mk("guarded", strings.TrimSpace(rest[i+4:]))
			if err != nil {
				return nil, err
			}
			cur.Guarded = append(cur.Guarded, &GuardClause{Pat: strings.TrimSpace(rest[:i]), Clause: c})
		case "abstract":
			if err := needCur(); err != nil {
				return nil, err
			}
			if cur.Abstract == nil {
				cur.Abstract = map[string]bool{}
			}
			for _, a := range strings.Split(rest, ",") {
				if a = strings.TrimSpace(a); a != "" {
					cur.Abstract[a] = true
				}
			}
		case "trusted":
			if err := needCur(); err != nil {
				return nil, err
			}
			cur.Trusted = true
		}
	}
	return cf, nil
}

// splitTop splits at commas that are not inside brackets.
func splitTop(s string) []string {
	var out []string
	depth, start := 0, 0
	for i := 0; i < len(s); i++ {
		switch s[i] {
		case '(', '[', '{':
			depth++
		case ')', ']', '}':
			depth--
		case ',':
			if depth == 0 {
				out = append(out, s[start:i])
				start = i + 1
			}
		}
	}
	return append(out, s[start:])
}

// splitAssign: "A_T[expr]" -> ("A_T", "expr"); "A_T" -> ("A_T", "").
func splitAssign(a string) (string, string) {
	if i := strings.Index(a, "["); i > 0 && strings.HasSuffix(a, "]") && !strings.HasPrefix(a, "*") {
		return a[:i], a[i+1 : len(a)-1]
	}
	return a, ""
}

func firstWord(s string) string {
	for i, c := range s {
		if !(unicode.IsLetter(c) || c == '_') {
			return s[:i]
		}
	}
	return s
}

func parseSpecFunc(s, path string, line int) (*SpecFunc, error) {
	// NAME(params) RET [= body]
	body := ""
	// find top-level " = " not part of ==
	depth := 0
	eq := -1
	for i := 0; i < len(s); i++ {
		switch s[i] {
		case '(', '[':
			depth++
		case ')', ']':
			depth--
		case '=':
			if depth == 0 && eq < 0 && (i+1 >= len(s) || s[i+1] != '=') && (i == 0 || (s[i-1] != '=' && s[i-1] != '!' && s[i-1] != '<' && s[i-1] != '>')) {
				eq = i
			}
		}
		if eq >= 0 {
			break
		}
	}
	sig := s
	if eq >= 0 {
		sig = strings.TrimSpace(s[:eq])
		body = strings.TrimSpace(s[eq+1:])
	}
	fe, err := parser.ParseExpr("func " + sig + "{}")
	if err != nil {
		// maybe the name is attached: func name(params) ret -> parse as FuncLit needs no name
		i := strings.Index(sig, "(")
		if i < 0 {
			return nil, fmt.Errorf("%s:%d: bad spec func %q", path, line, s)
		}
		name := strings.TrimSpace(sig[:i])
		fe, err = parser.ParseExpr("func " + sig[i:] + "{}")
		if err != nil {
			return nil, fmt.Errorf("%s:%d: bad spec func signature %q: %v", path, line, sig, err)
		}
		fl := fe.(*ast.FuncLit)
		sf := &SpecFunc{Name: name, File: path, Line: line, Text: s}
		for _, fld := range fl.Type.Params.List {
			for _, n := range fld.Names {
				sf.Params = append(sf.Params, SpecParam{n.Name, fld.Type})
			}
		}
		if fl.Type.Results == nil || len(fl.Type.Results.List) != 1 {
			return nil, fmt.Errorf("%s:%d: spec func needs exactly one result type", path, line)
		}
		sf.Ret = fl.Type.Results.List[0].Type
		if body != "" {
			be, err := parseSpecExpr(body)
			if err != nil {
				return nil, fmt.Errorf("%s:%d: %v in %q", path, line, err, body)
			}
			sf.Body = be
			ast.Inspect(be, func(n ast.Node) bool {
				if c, ok := n.(*ast.CallExpr); ok {
					if id, ok := c.Fun.(*ast.Ident); ok && id.Name == name {
						sf.Rec = true
					}
				}
				return true
			})
		}
		return sf, nil
	}
	return nil, fmt.Errorf("%s:%d: bad spec func %q", path, line, s)
}

// ---------------------------------------------------------------------
// Sugar: a ==> b, a <==> b, forall x in lo..hi :: body, exists ...

type sItem struct {
	kind  int // 0 raw, 1 group, 2 op
	text  string
	open  byte
	items []sItem
}

func parseSpecExpr(s string) (ast.Expr, error) {
	d, err := desugar(s)
	if err != nil {
		return nil, err
	}
	e, err := parser.ParseExpr(d)
	if err != nil {
		return nil, fmt.Errorf("%v (desugared: %s)", err, d)
	}
	return e, nil
}

func desugar(s string) (string, error) {
	pos := 0
	items, err := scanItems(s, &pos, 0)
	if err != nil {
		return "", err
	}
	return emitItems(items)
}

func isIdentByte(c byte) bool {
	return c == '_' || (c >= 'a' && c <= 'z') || (c >= 'A' && c <= 'Z') || (c >= '0' && c <= '9')
}

func scanItems(s string, pos *int, closer byte) ([]sItem, error) {
	var items []sItem
	var raw strings.Builder
	flush := func() {
		if raw.Len() > 0 {
			items = append(items, sItem{kind: 0, text: raw.String()})
			raw.Reset()
		}
	}
	for *pos < len(s) {
		c := s[*pos]
		switch {
		case c == '"' || c == '`' || c == '\'':
			j := *pos + 1
			for j < len(s) && s[j] != c {
				if s[j] == '\\' && c != '`' {
					j++
				}
				j++
			}
			if j >= len(s) {
				return nil, fmt.Errorf("unterminated literal")
			}
			raw.WriteString(s[*pos : j+1])
			*pos = j + 1
		case c == '(' || c == '[' || c == '{':
			flush()
			*pos++
			cl := map[byte]byte{'(': ')', '[': ']', '{': '}'}[c]
			sub, err := scanItems(s, pos, cl)
			if err != nil {
				return nil, err
			}
			items = append(items, sItem{kind: 1, open: c, items: sub})
		case c == ')' || c == ']' || c == '}':
			if c != closer {
				return nil, fmt.Errorf("unbalanced %q", c)
			}
			flush()
			*pos++
			return items, nil
		case strings.HasPrefix(s[*pos:], "<==>"):
			flush()
			items = append(items, sItem{kind: 2, text: "<==>"})
			*pos += 4
		case strings.HasPrefix(s[*pos:], "==>"):
			flush()
			items = append(items, sItem{kind: 2, text: "==>"})
			*pos += 3
		case strings.HasPrefix(s[*pos:], "::"):
			flush()
			items = append(items, sItem{kind: 2, text: "::"})
			*pos += 2
		case strings.HasPrefix(s[*pos:], "..") && !strings.HasPrefix(s[*pos:], "..."):
			flush()
			items = append(items, sItem{kind: 2, text: ".."})
			*pos += 2
		case strings.HasPrefix(s[*pos:], "..."):
			raw.WriteString("...")
			*pos += 3
		case (c == '_' || unicode.IsLetter(rune(c))) && (*pos == 0 || !isIdentByte(s[*pos-1])):
			j := *pos
			for j < len(s) && isIdentByte(s[j]) {
				j++
			}
			w := s[*pos:j]
			if w == "forall" || w == "exists" {
				flush()
				items = append(items, sItem{kind: 2, text: w})
			} else {
				raw.WriteString(w)
			}
			*pos = j
		default:
			raw.WriteByte(c)
			*pos++
		}
	}
	if closer != 0 {
		return nil, fmt.Errorf("missing %q", closer)
	}
	flush()
	return items, nil
}

func emitItems(items []sItem) (string, error) {
	// locate first quantifier at this level
	q := -1
	for i, it := range items {
		if it.kind == 2 && (it.text == "forall" || it.text == "exists") {
			// a quantifier has a "::" later at this level; otherwise the word is
			// an ordinary identifier (a local variable named exists)
			hasCC := false
			for _, jt := range items[i+1:] {
				if jt.kind == 2 && jt.text == "::" {
					hasCC = true
				}
			}
			if !hasCC {
				items[i].kind = 0
				continue
			}
			q = i
			break
		}
	}
	limit := len(items)
	if q >= 0 {
		limit = q
	}
	for _, op := range []string{"<==>", "==>"} {
		for i := 0; i < limit; i++ {
			if items[i].kind == 2 && items[i].text == op {
				l, err := emitItems(items[:i])
				if err != nil {
					return "", err
				}
				r, err := emitItems(items[i+1:])
				if err != nil {
					return "", err
				}
				fn := "implies_"
				if op == "<==>" {
					fn = "iff_"
				}
				return fn + "(" + l + ", " + r + ")", nil
			}
		}
	}
	if q >= 0 {
		pre, err := emitPlain(items[:q])
		if err != nil {
			return "", err
		}
		rest := items[q+1:]
		// rest: VAR in LO .. HI :: BODY   (the "in" word is inside a raw item)
		dd, cc := -1, -1
		for i, it := range rest {
			if it.kind == 2 && it.text == ".." && dd < 0 {
				dd = i
			}
			if it.kind == 2 && it.text == "::" && cc < 0 {
				cc = i
			}
		}
		if cc < 0 {
			return "", fmt.Errorf("quantifier without ::")
		}
		body, err := emitItems(rest[cc+1:])
		if err != nil {
			return "", err
		}
		fn := items[q].text + "_"
		if dd < 0 || dd > cc {
			// forall x T :: body  (unbounded, typed)
			hdr, err := emitPlain(rest[:cc])
			if err != nil {
				return "", err
			}
			fs := strings.Fields(hdr)
			if len(fs) < 2 {
				return "", fmt.Errorf("quantifier header %q", hdr)
			}
			return pre + fn + "t(" + fs[0] + ", (" + strings.Join(fs[1:], " ") + ")(nil), " + body + ")", nil
		}
		hdr, err := emitPlain(rest[:dd])
		if err != nil {
			return "", err
		}
		hdr = strings.TrimSpace(hdr)
		i := strings.Index(hdr, " in ")
		if i < 0 {
			return "", fmt.Errorf("quantifier header %q lacks `in`", hdr)
		}
		v := strings.TrimSpace(hdr[:i])
		lo := strings.TrimSpace(hdr[i+4:])
		hi, err := emitItems(rest[dd+1 : cc])
		if err != nil {
			return "", err
		}
		return pre + fn + "(" + v + ", " + lo + ", " + hi + ", " + body + ")", nil
	}
	return emitPlain(items)
}

func emitPlain(items []sItem) (string, error) {
	var b strings.Builder
	for _, it := range items {
		switch it.kind {
		case 0:
			b.WriteString(it.text)
		case 1:
			inner, err := emitItems(it.items)
			if err != nil {
				return "", err
			}
			cl := map[byte]byte{'(': ')', '[': ']', '{': '}'}[it.open]
			b.WriteByte(it.open)
			b.WriteString(inner)
			b.WriteByte(cl)
		case 2:
			if it.text == ".." || it.text == "::" {
				return "", fmt.Errorf("stray %q", it.text)
			}
			b.WriteString(it.text)
		}
	}
	return b.String(), nil
}
