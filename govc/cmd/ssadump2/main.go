package main

import (
	"fmt"
	"os"

	"golang.org/x/tools/go/packages"
	"golang.org/x/tools/go/ssa"
	"golang.org/x/tools/go/ssa/ssautil"
)

func main() {
	cfg := &packages.Config{Mode: packages.LoadSyntax, Dir: "/repo"}
	pkgs, err := packages.Load(cfg, os.Args[1])
	if err != nil {
		panic(err)
	}
	prog, spkgs := ssautil.Packages(pkgs, ssa.NaiveForm|ssa.GlobalDebug|ssa.InstantiateGenerics)
	prog.Build()
	for _, p := range spkgs {
		for _, name := range os.Args[2:] {
			if f := p.Func(name); f != nil {
				f.WriteTo(os.Stdout)
				for _, af := range f.AnonFuncs {
					af.WriteTo(os.Stdout)
				}
			} else {
				// method?
				for _, m := range p.Members {
					if t, ok := m.(*ssa.Type); ok {
						for _, recv := range []interface{ String() string }{t.Type()} {
							_ = recv
						}
						ms := prog.MethodSets.MethodSet(t.Type())
						for i := 0; i < ms.Len(); i++ {
							if ms.At(i).Obj().Name() == name {
								prog.MethodValue(ms.At(i)).WriteTo(os.Stdout)
							}
						}
						ms = prog.MethodSets.MethodSet(typesPtr(t))
						for i := 0; i < ms.Len(); i++ {
							if ms.At(i).Obj().Name() == name {
								prog.MethodValue(ms.At(i)).WriteTo(os.Stdout)
							}
						}
					}
				}
			}
		}
	}
	fmt.Println("done")
}
