package main

import (
	"go/types"

	"golang.org/x/tools/go/ssa"
)

func typesPtr(t *ssa.Type) types.Type { return types.NewPointer(t.Type()) }
