package main

import (
	"fmt"
	"go/constant"
	"go/ast"
	"go/token"
	"go/types"
	"math/big"
	"os"
	"path/filepath"
	"sort"
	"strings"

	"golang.org/x/tools/go/ast/astutil"
	"golang.org/x/tools/go/packages"
	"golang.org/x/tools/go/ssa"
	"golang.org/x/tools/go/ssa/ssautil"
)

const modPath = "github.com/restic/restic"

type World struct {
	repo      string
	fset      *token.FileSet
	pkgs      map[string]*packages.Package // by import path (loaded with syntax)
	prog      *ssa.Program
	spkgs     map[string]*ssa.Package
	contracts map[string]*FuncContract // by full function name
	cfiles    []*ContractFile
	specs     map[string]*SpecFunc // pkgpath.name and bare name
	ghosts    map[string]*GhostVar
	ghostCells map[string]*Cell
	src       map[string][]byte
	fileOf    map[string]*ast.File
	typeCodes map[string]int64
	sentinels map[string]int64
	constCache map[*ssa.Global]*big.Int
	constKnown map[*ssa.Global]bool
	verbose   bool
	quietExternal map[string]bool
	loopCache map[*ssa.Function][]ast.Node
	unbound   []string
	allTypes  map[string]*types.Package
	extDir    string
	stmtCache map[token.Pos]string
	stmtPos   map[token.Pos]token.Pos
	writingBaseline bool
}

func loadWorld(repo string, patterns []string, extDir string) (*World, error) {
	w := &World{repo: repo, pkgs: map[string]*packages.Package{}, spkgs: map[string]*ssa.Package{}, contracts: map[string]*FuncContract{},
		specs: map[string]*SpecFunc{}, ghosts: map[string]*GhostVar{}, ghostCells: map[string]*Cell{}, src: map[string][]byte{}, fileOf: map[string]*ast.File{},
		typeCodes: map[string]int64{}, sentinels: map[string]int64{}, constCache: map[*ssa.Global]*big.Int{}, constKnown: map[*ssa.Global]bool{},
		quietExternal: map[string]bool{}, loopCache: map[*ssa.Function][]ast.Node{}, allTypes: map[string]*types.Package{}, extDir: extDir}
	w.fset = token.NewFileSet()
	cfg := &packages.Config{Mode: packages.LoadSyntax, Dir: repo, Fset: w.fset, Tests: false}
	pkgs, err := packages.Load(cfg, patterns...)
	if err != nil {
		return nil, err
	}
	for _, p := range pkgs {
		if len(p.Errors) > 0 {
			return nil, fmt.Errorf("package %s: %v", p.PkgPath, p.Errors[0])
		}
		w.pkgs[p.PkgPath] = p
	}
	prog, spkgs := ssautil.Packages(pkgs, ssa.NaiveForm|ssa.GlobalDebug|ssa.InstantiateGenerics)
	w.prog = prog
	for i, sp := range spkgs {
		if sp != nil {
			w.spkgs[pkgs[i].PkgPath] = sp
		}
	}
	prog.Build()
	for _, p := range pkgs {
		w.collectTypes(p.Types, 0)
		for i, f := range p.Syntax {
			name := p.CompiledGoFiles[i]
			w.fileOf[name] = f
		}
	}
	// contract files: repo packages
	for _, p := range pkgs {
		if len(p.GoFiles) == 0 {
			continue
		}
		dir := filepath.Dir(p.GoFiles[0])
		cfs, _ := filepath.Glob(filepath.Join(dir, "zz_verif_contracts*.go"))
		sort.Strings(cfs)
		for _, cf := range cfs {
			c, err := parseContractFile(cf, p.PkgPath)
			if err != nil {
				return nil, err
			}
			w.addContractFile(c)
		}
	}
	// contract files of repo packages that were loaded from export data only
	// (callees of the functions under verification)
	filepath.Walk(repo, func(path string, info os.FileInfo, err error) error {
		if err != nil {
			return nil
		}
		if info.IsDir() && (info.Name() == ".git" || info.Name() == "vendor" || info.Name() == "testdata") {
			return filepath.SkipDir
		}
		if !strings.HasPrefix(info.Name(), "zz_verif_contracts") || !strings.HasSuffix(info.Name(), ".go") {
			return nil
		}
		rel, _ := filepath.Rel(repo, filepath.Dir(path))
		pp := modPath + "/" + filepath.ToSlash(rel)
		if _, done := w.pkgs[pp]; done {
			return nil
		}
		if w.allTypes[pp] == nil {
			return nil // package not in the import graph of this run
		}
		c, perr := parseContractFile(path, pp)
		if perr != nil {
			fmt.Fprintln(os.Stderr, "contract file:", perr)
			return nil
		}
		w.addContractFile(c)
		return nil
	})
	// external contracts
	if extDir != "" {
		files, _ := filepath.Glob(filepath.Join(extDir, "*.spec"))
		sort.Strings(files)
		for _, f := range files {
			pp, err := specPackagePath(f)
			if err != nil {
				return nil, err
			}
			c, err := parseContractFile(f, pp)
			if err != nil {
				return nil, err
			}
			for _, fc := range c.Funcs {
				fc.Trusted = true
			}
			w.addContractFile(c)
		}
	}
	return w, nil
}

func specPackagePath(file string) (string, error) {
	b, err := os.ReadFile(file)
	if err != nil {
		return "", err
	}
	for _, l := range strings.Split(string(b), "\n") {
		l = strings.TrimSpace(l)
		if strings.HasPrefix(l, "package ") {
			return strings.TrimSpace(strings.TrimPrefix(l, "package ")), nil
		}
	}
	return "", fmt.Errorf("%s: no package line", file)
}

func (w *World) collectTypes(p *types.Package, d int) {
	if p == nil || w.allTypes[p.Path()] != nil {
		return
	}
	w.allTypes[p.Path()] = p
	for _, imp := range p.Imports() {
		w.collectTypes(imp, d+1)
	}
}

func (w *World) addContractFile(c *ContractFile) {
	w.cfiles = append(w.cfiles, c)
	for _, fc := range c.Funcs {
		key := fc.Key
		full := w.fullFuncName(c.PkgPath, key)
		if prev, dup := w.contracts[full]; dup && prev != fc {
			// a function may have clauses in several contract files of its
			// package (one file per topic): they add up. A contract written in
			// the function's own package wins over a summary some other
			// package's file declares for it (which is then ignored).
			prevOwn := strings.Contains(full, prev.PkgPath+".")
			newOwn := strings.Contains(full, c.PkgPath+".")
			switch {
			case prevOwn && !newOwn:
				fc.merged = true
				fmt.Fprintf(os.Stderr, "WARNING: %s:%d: summary for %s is ignored: the function has a contract in its own package (%s:%d); state caller-specific facts as `callee NAME ensures`\n", fc.File, fc.Line, full, prev.File, prev.Line)
				continue
			case !prevOwn && newOwn:
				prev.merged = true
				w.contracts[full] = fc
				fmt.Fprintf(os.Stderr, "WARNING: %s:%d: summary for %s is ignored: the function has a contract in its own package (%s:%d); state caller-specific facts as `callee NAME ensures`\n", prev.File, prev.Line, full, fc.File, fc.Line)
				continue
			}
			mergeContracts(prev, fc)
			fc.merged = true
			continue
		}
		w.contracts[full] = fc
	}
	for _, sf := range c.Specs {
		w.specs[c.PkgPath+"."+sf.Name] = sf
		if _, dup := w.specs[sf.Name]; !dup {
			w.specs[sf.Name] = sf
		}
	}
	for _, g := range c.Ghosts {
		w.ghosts[g.Name] = g
	}
}

func mergeContracts(dst, src *FuncContract) {
	dst.Requires = append(dst.Requires, src.Requires...)
	dst.Ensures = append(dst.Ensures, src.Ensures...)
	dst.Crash = append(dst.Crash, src.Crash...)
	dst.Reach = append(dst.Reach, src.Reach...)
	dst.Sends = append(dst.Sends, src.Sends...)
	dst.Guarded = append(dst.Guarded, src.Guarded...)
	dst.LitEns = append(dst.LitEns, src.LitEns...)
	dst.LitReq = append(dst.LitReq, src.LitReq...)
	dst.Effects = append(dst.Effects, src.Effects...)
	dst.NPTags = append(dst.NPTags, src.NPTags...)
	for k, v := range src.Inv {
		if dst.Inv == nil {
			dst.Inv = map[int][]*Clause{}
		}
		dst.Inv[k] = append(dst.Inv[k], v...)
	}
	for k, v := range src.Dec {
		if dst.Dec == nil {
			dst.Dec = map[int]*Clause{}
		}
		dst.Dec[k] = v
	}
	for k, v := range src.Calls {
		if dst.Calls == nil {
			dst.Calls = map[string]string{}
		}
		dst.Calls[k] = v
	}
	for k, v := range src.Unroll {
		if dst.Unroll == nil {
			dst.Unroll = map[int]int{}
		}
		dst.Unroll[k] = v
	}
	for _, a := range src.Assigns {
		dup := false
		for _, b := range dst.Assigns {
			if a == b {
				dup = true
			}
		}
		if !dup {
			dst.Assigns = append(dst.Assigns, a)
		}
	}
	dst.HasAssigns = dst.HasAssigns || src.HasAssigns
	for k, v := range src.CalleeEns {
		if dst.CalleeEns == nil {
			dst.CalleeEns = map[string][]*Clause{}
		}
		dst.CalleeEns[k] = append(dst.CalleeEns[k], v...)
	}
	for k, v := range src.CalleeAsg {
		if dst.CalleeAsg == nil {
			dst.CalleeAsg = map[string][]string{}
		}
		dst.CalleeAsg[k] = append(dst.CalleeAsg[k], v...)
	}
	for k := range src.Abstract {
		if dst.Abstract == nil {
			dst.Abstract = map[string]bool{}
		}
		dst.Abstract[k] = true
	}
	dst.NoPanic = dst.NoPanic || src.NoPanic
	dst.Pure = dst.Pure || src.Pure
	dst.Trusted = dst.Trusted || src.Trusted
	dst.Inline = dst.Inline || src.Inline
	dst.Opaque = dst.Opaque || src.Opaque
	dst.Sticky = dst.Sticky || src.Sticky
	if len(dst.Results) == 0 {
		dst.Results = src.Results
	}
}

// fullFuncName turns a contract key into the SSA full name.
//   F                 -> pkg.F
//   (*T).M / (T).M    -> (*pkg.T).M / (pkg.T).M
//   F$1               -> pkg.F$1
//   (other/pkg.I).M   -> as written (already qualified)
func (w *World) fullFuncName(pkg, key string) string {
	key = strings.TrimSpace(key)
	if strings.HasPrefix(key, "(") {
		i := strings.Index(key, ")")
		recv := key[1:i]
		rest := key[i+1:]
		star := ""
		if strings.HasPrefix(recv, "*") {
			star = "*"
			recv = recv[1:]
		}
		if !strings.Contains(recv, ".") || strings.HasPrefix(recv, "[") {
			recv = pkg + "." + recv
		} else if !strings.Contains(recv, "/") {
			// pkgname.Type: resolve the package name through the imports
			i := strings.Index(recv, ".")
			if tp := w.typesPkg(pkg); tp != nil {
				if ip := w.importByName(tp, recv[:i]); ip != nil {
					recv = ip.Path() + recv[i:]
				}
			}
		}
		return "(" + star + recv + ")" + rest
	}
	if strings.Contains(key, "/") || (strings.Contains(key, ".") && !strings.Contains(key, "$") && w.allTypes[key[:strings.LastIndex(key, ".")]] != nil) {
		return key
	}
	return pkg + "." + key
}

func (w *World) contractFor(fn *ssa.Function) *FuncContract {
	name := fn.String()
	if c, ok := w.contracts[name]; ok {
		return c
	}
	if o := fn.Origin(); o != nil {
		if c, ok := w.contracts[o.String()]; ok {
			return c
		}
	}
	return nil
}

func (w *World) contractByName(name string) *FuncContract {
	return w.contracts[name]
}

func (w *World) pkgOfContract(c *FuncContract) *types.Package {
	return w.typesPkg(c.PkgPath)
}

func (w *World) typesPkg(path string) *types.Package {
	if p, ok := w.pkgs[path]; ok {
		return p.Types
	}
	return w.allTypes[path]
}

func (w *World) importByName(pkg *types.Package, name string) *types.Package {
	for _, imp := range pkg.Imports() {
		if imp.Name() == name {
			return imp
		}
	}
	// any known package with that name (contracts may mention packages the
	// annotated package does not import)
	var found *types.Package
	for _, p := range w.allTypes {
		if p.Name() == name {
			if found != nil && found != p {
				// ambiguous: prefer repo packages
				if strings.HasPrefix(p.Path(), modPath) && !strings.HasPrefix(found.Path(), modPath) {
					found = p
				}
				continue
			}
			found = p
		}
	}
	return found
}

func (w *World) specFunc(pkg *types.Package, name string) *SpecFunc {
	if pkg != nil {
		if sf, ok := w.specs[pkg.Path()+"."+name]; ok {
			return sf
		}
	}
	return w.specs[name]
}

func (w *World) globalFor(v *types.Var) *ssa.Global {
	if v.Pkg() == nil {
		return nil
	}
	sp := w.prog.Package(v.Pkg())
	if sp == nil {
		return nil
	}
	g, _ := sp.Members[v.Name()].(*ssa.Global)
	return g
}

// resolveType resolves a type expression in the context of pkg.
func (w *World) resolveType(pkg *types.Package, e ast.Expr) types.Type {
	return w.resolveTypeQuiet(pkg, e)
}

func (w *World) resolveTypeQuiet(pkg *types.Package, e ast.Expr) types.Type {
	switch n := e.(type) {
	case *ast.Ident:
		if obj := types.Universe.Lookup(n.Name); obj != nil {
			if tn, ok := obj.(*types.TypeName); ok {
				return tn.Type()
			}
			return nil
		}
		if pkg != nil {
			if tn, ok := pkg.Scope().Lookup(n.Name).(*types.TypeName); ok {
				return tn.Type()
			}
		}
		return nil
	case *ast.SelectorExpr:
		id, ok := n.X.(*ast.Ident)
		if !ok || pkg == nil {
			return nil
		}
		p := w.importByName(pkg, id.Name)
		if p == nil {
			return nil
		}
		if tn, ok := p.Scope().Lookup(n.Sel.Name).(*types.TypeName); ok {
			return tn.Type()
		}
		return nil
	case *ast.StarExpr:
		if t := w.resolveTypeQuiet(pkg, n.X); t != nil {
			return types.NewPointer(t)
		}
	case *ast.ArrayType:
		et := w.resolveTypeQuiet(pkg, n.Elt)
		if et == nil {
			return nil
		}
		if n.Len == nil {
			return types.NewSlice(et)
		}
		if bl, ok := n.Len.(*ast.BasicLit); ok {
			var k int64
			fmt.Sscan(bl.Value, &k)
			return types.NewArray(et, k)
		}
	case *ast.ParenExpr:
		return w.resolveTypeQuiet(pkg, n.X)
	case *ast.MapType:
		k := w.resolveTypeQuiet(pkg, n.Key)
		v := w.resolveTypeQuiet(pkg, n.Value)
		if k != nil && v != nil {
			return types.NewMap(k, v)
		}
	}
	return nil
}

// ---------------------------------------------------------------------
// source text

func (w *World) source(file string) []byte {
	if b, ok := w.src[file]; ok {
		return b
	}
	b, _ := os.ReadFile(file)
	w.src[file] = b
	return b
}

func (w *World) nodeText(n ast.Node) string {
	p := w.fset.Position(n.Pos())
	e := w.fset.Position(n.End())
	b := w.source(p.Filename)
	if p.Offset < 0 || e.Offset > len(b) || p.Offset > e.Offset {
		return ""
	}
	return string(b[p.Offset:e.Offset])
}

// nodeTextAt: source text of the innermost expression/statement at pos.
func (w *World) nodeTextAt(pos token.Pos) string {
	if !pos.IsValid() {
		return ""
	}
	p := w.fset.Position(pos)
	f := w.fileOf[p.Filename]
	if f == nil {
		return ""
	}
	path, _ := astutil.PathEnclosingInterval(f, pos, pos)
	for _, n := range path {
		switch n.(type) {
		case ast.Expr:
			if _, isIdent := n.(*ast.Ident); isIdent {
				continue
			}
			return w.nodeText(n)
		case *ast.AssignStmt, *ast.IncDecStmt, *ast.ReturnStmt, *ast.ExprStmt, *ast.DeferStmt, *ast.GoStmt, *ast.SendStmt:
			return w.nodeText(n)
		case *ast.RangeStmt:
			rs := n.(*ast.RangeStmt)
			return "range " + w.nodeText(rs.X)
		case ast.Stmt:
			t := w.nodeText(n)
			if i := strings.Index(t, "\n"); i >= 0 {
				t = t[:i]
			}
			return t
		}
	}
	return ""
}

// stmtTextAt: source text of the innermost simple statement containing pos.
func (w *World) stmtTextAt(pos token.Pos) string {
	if t, ok := w.stmtCache[pos]; ok {
		return t
	}
	p := w.fset.Position(pos)
	f := w.fileOf[p.Filename]
	t := ""
	if f != nil {
		path, _ := astutil.PathEnclosingInterval(f, pos, pos)
		for _, n := range path {
			switch n.(type) {
			case *ast.AssignStmt, *ast.IncDecStmt, *ast.ReturnStmt, *ast.ExprStmt, *ast.DeferStmt, *ast.GoStmt, *ast.SendStmt:
				t = w.nodeText(n)
				if w.stmtPos == nil {
					w.stmtPos = map[token.Pos]token.Pos{}
				}
				w.stmtPos[pos] = n.Pos()
			case *ast.SelectStmt:
				// the select instruction itself: "select {"
				if pos == n.Pos() {
					t = "select {"
					if w.stmtPos == nil {
						w.stmtPos = map[token.Pos]token.Pos{}
					}
					w.stmtPos[pos] = n.Pos()
				}
			case *ast.IfStmt:
				// the condition of an if statement: "if cond {" (first line only);
				// positions inside the init statement belong to that statement
				is := n.(*ast.IfStmt)
				if pos >= is.Cond.Pos() && pos < is.Cond.End() {
					t = w.nodeText(n)
					if i := strings.Index(t, "\n"); i >= 0 {
						t = t[:i]
					}
					if w.stmtPos == nil {
						w.stmtPos = map[token.Pos]token.Pos{}
					}
					w.stmtPos[pos] = n.Pos()
				}
			}
			if t != "" {
				break
			}
		}
	}
	if w.stmtCache == nil {
		w.stmtCache = map[token.Pos]string{}
	}
	w.stmtCache[pos] = t
	return t
}

// stmtOrdinal: 1-based position of the statement starting at sp among the
// statements of the outermost enclosing function that have the same text.
func (w *World) stmtOrdinal(fn *ssa.Function, sp token.Pos, txt string) int {
	outer := fn
	for outer.Parent() != nil {
		outer = outer.Parent()
	}
	syn := outer.Syntax()
	if syn == nil {
		return 0
	}
	n, found := 0, 0
	ast.Inspect(syn, func(x ast.Node) bool {
		switch x.(type) {
		case *ast.AssignStmt, *ast.IncDecStmt, *ast.ReturnStmt, *ast.ExprStmt, *ast.DeferStmt, *ast.GoStmt, *ast.SendStmt:
			if normText(w.nodeText(x)) == txt {
				n++
				if x.Pos() == sp {
					found = n
				}
			}
		case *ast.IfStmt:
			t := w.nodeText(x)
			if i := strings.Index(t, "\n"); i >= 0 {
				t = t[:i]
			}
			if normText(t) == txt {
				n++
				if x.Pos() == sp {
					found = n
				}
			}
		case *ast.SelectStmt:
			if txt == "select {" {
				n++
				if x.Pos() == sp {
					found = n
				}
			}
		}
		return true
	})
	return found
}

// scopeObject finds the object `name` denotes at pos inside fn.
func (w *World) scopeObject(fn *ssa.Function, pos token.Pos, name string) types.Object {
	if fnSSAPkg(fn) == nil || !pos.IsValid() {
		return nil
	}
	sc := fnTypesPkg(fn).Scope().Innermost(pos)
	if sc == nil {
		return nil
	}
	_, obj := sc.LookupParent(name, pos)
	return obj
}

// loopOrdinal maps an SSA natural loop to the ordinal of its for/range
// statement in the outermost enclosing source function.
func (w *World) loopOrdinal(fn *ssa.Function, li *loopInfo) (int, ast.Node) {
	outer := fn
	for outer.Parent() != nil {
		outer = outer.Parent()
	}
	stmts := w.loopStmts(outer)
	if len(stmts) == 0 {
		return 0, nil
	}
	best := -1
	bestDepth := 1 << 30
	for b := range li.body {
		for _, ins := range b.Instrs {
			pos := ins.Pos()
			if !pos.IsValid() {
				if dr, ok := ins.(*ssa.DebugRef); ok {
					pos = dr.Expr.Pos()
				}
			}
			if !pos.IsValid() {
				continue
			}
			// innermost loop stmt containing pos, and its nesting depth
			inner := -1
			depth := 0
			for i, s := range stmts {
				if s.Pos() <= pos && pos < s.End() {
					depth++
					inner = i
					_ = inner
				}
			}
			if depth == 0 {
				continue
			}
			// the innermost is the last containing one in source order
			for i := len(stmts) - 1; i >= 0; i-- {
				if stmts[i].Pos() <= pos && pos < stmts[i].End() {
					inner = i
					break
				}
			}
			if depth < bestDepth {
				bestDepth = depth
				best = inner
			}
		}
	}
	if best < 0 {
		return 0, nil
	}
	return best + 1, stmts[best]
}

// funcLitOrdinal: 1-based position of a closure's literal among the function
// literals of the outermost enclosing source function, in source order.
func (w *World) funcLitOrdinal(fn *ssa.Function) int {
	lit, ok := fn.Syntax().(*ast.FuncLit)
	if !ok {
		return 0
	}
	outer := fn
	for outer.Parent() != nil {
		outer = outer.Parent()
	}
	n, found := 0, 0
	if syn := outer.Syntax(); syn != nil {
		ast.Inspect(syn, func(x ast.Node) bool {
			if fl, ok := x.(*ast.FuncLit); ok {
				n++
				if fl.Pos() == lit.Pos() {
					found = n
				}
			}
			return true
		})
	}
	return found
}

func (w *World) loopStmts(fn *ssa.Function) []ast.Node {
	if s, ok := w.loopCache[fn]; ok {
		return s
	}
	var out []ast.Node
	if syn := fn.Syntax(); syn != nil {
		ast.Inspect(syn, func(n ast.Node) bool {
			switch n.(type) {
			case *ast.ForStmt, *ast.RangeStmt:
				out = append(out, n)
			}
			return true
		})
	}
	w.loopCache[fn] = out
	return out
}

// ---------------------------------------------------------------------
// package-level variables that are constants in disguise

// constGlobal: the variable is stored exactly once, in the package
// initialiser, with a value computable from constants.
func (w *World) constGlobal(g *ssa.Global) (*big.Int, bool) {
	if w.constKnown[g] {
		v := w.constCache[g]
		return v, v != nil
	}
	w.constKnown[g] = true
	if !isInteger(ptrElem(g.Type())) {
		return nil, false
	}
	pkg := g.Pkg
	if pkg == nil {
		return nil, false
	}
	var stores []*ssa.Store
	bad := false
	for _, m := range pkg.Members {
		fn, ok := m.(*ssa.Function)
		if !ok {
			continue
		}
		w.scanStores(fn, g, &stores, &bad)
	}
	// methods
	for _, m := range pkg.Members {
		if t, ok := m.(*ssa.Type); ok {
			for _, recv := range []types.Type{t.Type(), types.NewPointer(t.Type())} {
				ms := w.prog.MethodSets.MethodSet(recv)
				for i := 0; i < ms.Len(); i++ {
					if fn := w.prog.MethodValue(ms.At(i)); fn != nil && fn.Pkg == pkg {
						w.scanStores(fn, g, &stores, &bad)
					}
				}
			}
		}
	}
	if bad || len(stores) != 1 {
		return nil, false
	}
	if stores[0].Parent().Name() != "init" {
		return nil, false
	}
	v, ok := w.constEval(stores[0].Val, 0)
	if !ok {
		return nil, false
	}
	w.constCache[g] = v
	return v, true
}

func (w *World) scanStores(fn *ssa.Function, g *ssa.Global, stores *[]*ssa.Store, bad *bool) {
	var visit func(f *ssa.Function)
	seen := map[*ssa.Function]bool{}
	visit = func(f *ssa.Function) {
		if seen[f] {
			return
		}
		seen[f] = true
		for _, b := range f.Blocks {
			for _, ins := range b.Instrs {
				if st, ok := ins.(*ssa.Store); ok && st.Addr == g {
					*stores = append(*stores, st)
					continue
				}
				// any other use of the address (passed along) defeats the analysis
				for _, op := range ins.Operands(nil) {
					if *op == ssa.Value(g) {
						if u, ok := ins.(*ssa.UnOp); ok && u.Op == token.MUL {
							continue
						}
						if _, ok := ins.(*ssa.DebugRef); ok {
							continue
						}
						*bad = true
					}
				}
			}
		}
		for _, af := range f.AnonFuncs {
			visit(af)
		}
	}
	visit(fn)
}

func (w *World) constEval(v ssa.Value, d int) (*big.Int, bool) {
	if d > 20 {
		return nil, false
	}
	switch t := v.(type) {
	case *ssa.Const:
		if t.Value == nil {
			return nil, false
		}
		n, ok := new(big.Int).SetString(t.Value.ExactString(), 10)
		return n, ok
	case *ssa.Convert:
		x, ok := w.constEval(t.X, d+1)
		if !ok || !isInteger(t.Type()) {
			return nil, false
		}
		return x, true
	case *ssa.ChangeType:
		return w.constEval(t.X, d+1)
	case *ssa.BinOp:
		a, ok1 := w.constEval(t.X, d+1)
		b, ok2 := w.constEval(t.Y, d+1)
		if !ok1 || !ok2 {
			return nil, false
		}
		switch t.Op {
		case token.ADD:
			return new(big.Int).Add(a, b), true
		case token.SUB:
			return new(big.Int).Sub(a, b), true
		case token.MUL:
			return new(big.Int).Mul(a, b), true
		case token.QUO:
			if b.Sign() == 0 {
				return nil, false
			}
			return new(big.Int).Quo(a, b), true
		}
	case *ssa.UnOp:
		if t.Op == token.MUL {
			if g, ok := t.X.(*ssa.Global); ok {
				return w.constGlobal(g)
			}
		}
	case *ssa.Call:
		if f, ok := t.Call.Value.(*ssa.Function); ok && f.String() == "encoding/binary.Size" {
			if mi, ok := t.Call.Args[0].(*ssa.MakeInterface); ok {
				if bits, _, ok := intInfo(mi.X.Type()); ok && bits > 0 {
					return big.NewInt(int64(bits / 8)), true
				}
			}
		}
		if b, ok := t.Call.Value.(*ssa.Builtin); ok && b.Name() == "len" {
			if at, ok := under(t.Call.Args[0].Type()).(*types.Array); ok {
				return big.NewInt(at.Len()), true
			}
		}
	}
	return nil, false
}

// constStringGlobal: a string-typed package variable stored exactly once, in the
// package initialiser, with a constant.
func (w *World) constStringGlobal(g *ssa.Global) (string, bool) {
	if g.Pkg == nil {
		return "", false
	}
	if _, loaded := w.pkgs[g.Pkg.Pkg.Path()]; !loaded {
		return "", false
	}
	var stores []*ssa.Store
	bad := false
	for _, m := range g.Pkg.Members {
		if fn, ok := m.(*ssa.Function); ok {
			w.scanStores(fn, g, &stores, &bad)
		}
	}
	for _, m := range g.Pkg.Members {
		if t, ok := m.(*ssa.Type); ok {
			for _, recv := range []types.Type{t.Type(), types.NewPointer(t.Type())} {
				ms := w.prog.MethodSets.MethodSet(recv)
				for i := 0; i < ms.Len(); i++ {
					if fn := w.prog.MethodValue(ms.At(i)); fn != nil && fn.Pkg == g.Pkg {
						w.scanStores(fn, g, &stores, &bad)
					}
				}
			}
		}
	}
	if bad || len(stores) != 1 || stores[0].Parent().Name() != "init" {
		return "", false
	}
	v := stores[0].Val
	for {
		switch t := v.(type) {
		case *ssa.Convert:
			v = t.X
			continue
		case *ssa.ChangeType:
			v = t.X
			continue
		}
		break
	}
	c, ok := v.(*ssa.Const)
	if !ok || c.Value == nil || c.Value.Kind() != constant.String {
		return "", false
	}
	return constant.StringVal(c.Value), true
}

// sentinelGlobal: an error-typed package variable initialised once by a call
// (errors.New / fmt.Errorf), or any exported error variable of an external
// package.
func (w *World) sentinelGlobal(g *ssa.Global) bool {
	if g.Pkg == nil {
		return false
	}
	if _, loaded := w.pkgs[g.Pkg.Pkg.Path()]; !loaded {
		return true // external package: trusted distinct sentinel
	}
	var stores []*ssa.Store
	bad := false
	for _, m := range g.Pkg.Members {
		if fn, ok := m.(*ssa.Function); ok {
			w.scanStores(fn, g, &stores, &bad)
		}
	}
	if bad || len(stores) != 1 || stores[0].Parent().Name() != "init" {
		return false
	}
	val := stores[0].Val
	if mi, ok := val.(*ssa.MakeInterface); ok {
		val = mi.X
	}
	_, isCall := val.(*ssa.Call)
	return isCall
}

func (w *World) sentinelCode(g *ssa.Global) int64 {
	k := g.Pkg.Pkg.Path() + "." + g.Name()
	if c, ok := w.sentinels[k]; ok {
		return c
	}
	c := int64(1000001 + len(w.sentinels))
	w.sentinels[k] = c
	return c
}

func (x *Exec) ghostCell(name string) *Cell {
	if c, ok := x.ghosts[name]; ok {
		return c
	}
	g, ok := x.w.ghosts[name]
	if !ok {
		return nil
	}
	t := x.w.resolveType(x.w.typesPkg(g.PkgPath), g.Type)
	if t == nil {
		return nil
	}
	c := x.newCell("ghost_"+name, t, token.NoPos)
	c.ghost = true
	x.ghosts[name] = c
	return c
}

// sendCheck: gate obligations on channel sends (`sends <expr over sent>`).
func (fr *Frame) sendCheck(st *State, v *Val, pos token.Pos, guard string) {
	x := fr.x
	top := x.top
	if top == nil || top.contract == nil {
		return
	}
	for _, c := range top.contract.Sends {
		env := fr.specEnv(st)
		env.vars = map[string]*Val{"sent": v}
		env.lookup = func(s *State, name string) (*Val, bool) { return fr.lookupLocal(s, name, pos) }
		g, err := env.evalBool(c.Expr)
		if err != nil {
			x.vc.diag("sends clause: %v", err)
			g = "false"
		}
		x.oblige(st, "send", x.w.nodeTextAt(pos)+": "+c.Text, pos, tImp(guard, g), c.Tags, false)
	}
}

func (w *World) sendHook(fr *Frame, st *State, in *ssa.Send) {
	fr.sendCheck(st, fr.val(st, in.X), in.Pos(), "true")
	x := fr.x
	top := x.top
	if top == nil || top.contract == nil {
		return
	}
	// `requires` attached to sends: contract effect clause "send: <expr over v>"
	for _, e := range top.contract.Effects {
		if strings.HasPrefix(e, "send ") {
			expr, err := parseSpecExpr(strings.TrimPrefix(e, "send "))
			if err != nil {
				x.vc.diag("send clause: %v", err)
				continue
			}
			env := fr.specEnv(st)
			env.lookup = func(s *State, name string) (*Val, bool) { return fr.lookupLocal(s, name, in.Pos()) }
			env.vars["sent"] = fr.val(st, in.X)
			g, err := env.evalBool(expr)
			if err != nil {
				x.vc.diag("send clause: %v", err)
				g = "false"
			}
			x.oblige(st, "send", strings.TrimPrefix(e, "send "), in.Pos(), g, nil, false)
		}
	}
}

// callOrdinal: the 1-based position, in source order, of the call at pos among
// the calls in the outermost source function around fn (function literals
// included) whose callee has the (unqualified) name; 0 if not found.
func (w *World) callOrdinal(fn *ssa.Function, pos token.Pos, name string) int {
	var ps []token.Pos
	seen := map[token.Pos]bool{}
	// counted over the outermost source function, function literals included
	outer := fn
	for outer.Parent() != nil {
		outer = outer.Parent()
	}
	var walk func(f *ssa.Function)
	walk = func(f *ssa.Function) {
		for _, b := range f.Blocks {
			for _, in := range b.Instrs {
				ci, ok := in.(ssa.CallInstruction)
				if !ok || lastCallName(ci.Common()) != name {
					continue
				}
				if p := in.Pos(); p.IsValid() && !seen[p] {
					seen[p] = true
					ps = append(ps, p)
				}
			}
		}
		for _, a := range f.AnonFuncs {
			walk(a)
		}
	}
	walk(outer)
	sort.Slice(ps, func(i, j int) bool { return ps[i] < ps[j] })
	for i, p := range ps {
		if p == pos {
			return i + 1
		}
	}
	return 0
}
