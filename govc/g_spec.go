package main

// Evaluation of contract expressions (Go expressions plus sugar) to SMT terms.

import (
	"fmt"
	"go/ast"
	"go/constant"
	"go/token"
	"go/types"
	"math/big"
	"strconv"
	"strings"

	"golang.org/x/tools/go/ssa"
)

type SpecEnv struct {
	evBase string // events() is counted relative to this term (callee contracts evaluated at a call site)
	x      *Exec
	st     *State
	old    *State
	pkg    *types.Package
	vars   map[string]*Val
	lookup func(st *State, name string) (*Val, bool)
	entry  *State // state at loop entry (for entry(e) in loop clauses)
	visited string // visited-key set of the map range loop the clause belongs to
	visitedM *Val  // the map that loop ranges over
	pol     int    // +1 (or 0 at top): formula will be proved; -1: it will be assumed; 2: mixed
	cbOrd   int    // callback whose invariant is being evaluated (for _n, _a0..)
	cbN     string
	frame  *Frame
	depth  int
}

type specErr struct{ msg string }

func sfail(format string, a ...any) { panic(specErr{fmt.Sprintf(format, a...)}) }

func (env *SpecEnv) flip() *SpecEnv {
	n := *env
	switch env.pol {
	case 0, 1:
		n.pol = -1
	case -1:
		n.pol = 1
	}
	return &n
}

func (env *SpecEnv) mixed() *SpecEnv {
	n := *env
	n.pol = 2
	return &n
}

// assuming returns a copy of the environment for a formula that will be
// assumed rather than proved.
func (env *SpecEnv) assuming() *SpecEnv {
	n := *env
	n.pol = -1
	return &n
}

func (env *SpecEnv) child() *SpecEnv {
	n := *env
	n.vars = map[string]*Val{}
	for k, v := range env.vars {
		n.vars[k] = v
	}
	return &n
}

func (env *SpecEnv) evalBool(e ast.Expr) (t string, err error) {
	savedPC := env.x.vc.pcNow
	if env.st != nil {
		env.x.vc.pcNow = env.st.pc
	}
	defer func() { env.x.vc.pcNow = savedPC }()
	defer func() {
		if r := recover(); r != nil {
			if se, ok := r.(specErr); ok {
				err = fmt.Errorf("%s", se.msg)
				return
			}
			err = fmt.Errorf("spec evaluation: %v", r)
		}
	}()
	v := env.eval(e)
	if !isBool(v.Ty) {
		sfail("clause is not boolean (type %v)", v.Ty)
	}
	return v.L[0], nil
}

func (env *SpecEnv) evalVal(e ast.Expr) (v *Val, err error) {
	savedPC := env.x.vc.pcNow
	if env.st != nil {
		env.x.vc.pcNow = env.st.pc
	}
	defer func() { env.x.vc.pcNow = savedPC }()
	defer func() {
		if r := recover(); r != nil {
			if se, ok := r.(specErr); ok {
				err = fmt.Errorf("%s", se.msg)
				return
			}
			err = fmt.Errorf("spec evaluation: %v", r)
		}
	}()
	return env.eval(e), nil
}

var untypedInt = types.Typ[types.UntypedInt]

func (env *SpecEnv) eval(e ast.Expr) *Val {
	x := env.x
	switch n := e.(type) {
	case *ast.ParenExpr:
		return env.eval(n.X)
	case *ast.BasicLit:
		switch n.Kind {
		case token.INT:
			v, ok := new(big.Int).SetString(n.Value, 0)
			if !ok {
				sfail("bad int literal %s", n.Value)
			}
			return &Val{Ty: untypedInt, L: []string{bignum(v)}}
		case token.CHAR:
			r, _, _, err := strconv.UnquoteChar(n.Value[1:len(n.Value)-1], '\'')
			if err != nil {
				sfail("bad char literal %s", n.Value)
			}
			return &Val{Ty: types.Typ[types.UntypedRune], L: []string{num(int64(r))}}
		case token.STRING:
			s, err := strconv.Unquote(n.Value)
			if err != nil {
				sfail("bad string literal %s", n.Value)
			}
			return x.strLit(s)
		}
		sfail("unsupported literal %s", n.Value)
	case *ast.Ident:
		return env.ident(n.Name)
	case *ast.UnaryExpr:
		if n.Op == token.NOT {
			return mkBool(tNot(env.flip().eval(n.X).T()))
		}
		v := env.eval(n.X)
		switch n.Op {
		case token.SUB:
			return &Val{Ty: v.Ty, L: []string{tNeg(v.T())}}
		case token.ADD:
			return v
		}
		sfail("unsupported unary %s", n.Op)
	case *ast.StarExpr:
		v := env.eval(n.X)
		return env.deref(v)
	case *ast.BinaryExpr:
		return env.binary(n)
	case *ast.SelectorExpr:
		return env.selector(n)
	case *ast.IndexExpr:
		return env.index(n)
	case *ast.SliceExpr:
		return env.slice(n)
	case *ast.CallExpr:
		return env.call(n)
	case *ast.CompositeLit:
		t := env.resolveType(n.Type)
		if len(n.Elts) == 0 {
			return zeroVal(t)
		}
		if stt, ok := under(t).(*types.Struct); ok {
			v := zeroVal(t)
			for k, el := range n.Elts {
				idx := k
				val := el
				if kv, ok := el.(*ast.KeyValueExpr); ok {
					id, ok := kv.Key.(*ast.Ident)
					if !ok {
						sfail("struct literal key must be a field name")
					}
					idx = -1
					for i := 0; i < stt.NumFields(); i++ {
						if stt.Field(i).Name() == id.Name {
							idx = i
						}
					}
					if idx < 0 {
						sfail("no field %s in %v", id.Name, t)
					}
					val = kv.Value
				}
				if idx >= stt.NumFields() {
					sfail("too many values in struct literal")
				}
				v = v.withField(idx, env.coerce(env.eval(val), stt.Field(idx).Type()))
			}
			return v
		}
		sfail("composite literals with elements are only supported for structs")
	}
	sfail("unsupported expression %T", e)
	return nil
}

func (env *SpecEnv) ident(name string) *Val {
	x := env.x
	if v, ok := env.vars[name]; ok {
		return v
	}
	if name == "_n" && env.cbN != "" {
		return mkInt(types.Typ[types.Int], env.cbN)
	}
	switch name {
	case "true":
		return mkBool("true")
	case "false":
		return mkBool("false")
	case "nil":
		return &Val{Ty: types.Typ[types.UntypedNil], L: []string{"0"}}
	}
	if env.lookup != nil {
		if v, ok := env.lookup(env.st, name); ok {
			return v
		}
	}
	if env.pkg != nil {
		if obj := env.pkg.Scope().Lookup(name); obj != nil {
			return env.object(obj)
		}
	}
	if obj := types.Universe.Lookup(name); obj != nil {
		if c, ok := obj.(*types.Const); ok {
			return constToVal(x, c.Val(), c.Type())
		}
	}
	sfail("undefined: %s", name)
	return nil
}

func constToVal(x *Exec, cv constant.Value, t types.Type) *Val {
	switch cv.Kind() {
	case constant.Bool:
		if constant.BoolVal(cv) {
			return mkBool("true")
		}
		return mkBool("false")
	case constant.Int:
		n, _ := new(big.Int).SetString(cv.ExactString(), 10)
		return &Val{Ty: t, L: []string{bignum(n)}}
	case constant.String:
		v := x.strLit(constant.StringVal(cv))
		return &Val{Ty: t, L: v.L, X: v.X}
	}
	sfail("unsupported constant kind")
	return nil
}

func (env *SpecEnv) object(obj types.Object) *Val {
	x := env.x
	switch o := obj.(type) {
	case *types.Const:
		return constToVal(x, o.Val(), o.Type())
	case *types.Var:
		g := x.w.globalFor(o)
		if g == nil {
			sfail("package variable %s has no SSA global", o.Name())
		}
		c := x.globalCell(g)
		st := env.st
		if v, ok := st.cells[c]; ok {
			return v
		}
		return x.globalInit(st, c)
	case *types.Func:
		fn := x.w.prog.FuncValue(o)
		if fn == nil {
			sfail("function %s has no SSA", o.Name())
		}
		return &Val{Ty: o.Type(), L: []string{"1"}, X: &Closure{fn: fn}}
	}
	sfail("unsupported object %v", obj)
	return nil
}

func (env *SpecEnv) deref(v *Val) *Val {
	if !isPointer(v.Ty) {
		sfail("cannot dereference %v", v.Ty)
	}
	p := env.x.ptrOf(v)
	return env.x.loadPath(env.st, p)
}

func (env *SpecEnv) importedPkg(name string) *types.Package {
	if env.pkg == nil {
		return nil
	}
	if p := env.x.w.importByName(env.pkg, name); p != nil {
		return p
	}
	return nil
}

func (env *SpecEnv) selector(n *ast.SelectorExpr) *Val {
	x := env.x
	if id, ok := n.X.(*ast.Ident); ok {
		if id.Name == "ghost" {
			c := x.ghostCell(n.Sel.Name)
			if c == nil {
				sfail("unknown ghost variable %s", n.Sel.Name)
			}
			if v, ok := env.st.cells[c]; ok {
				return v
			}
			return x.initCell(env.st, c)
		}
		if _, isVar := env.vars[id.Name]; !isVar {
			shadow := false
			if env.lookup != nil {
				_, shadow = env.lookup(env.st, id.Name)
			}
			if !shadow {
				if p := env.importedPkg(id.Name); p != nil {
					obj := p.Scope().Lookup(n.Sel.Name)
					if obj == nil {
						sfail("undefined: %s.%s", id.Name, n.Sel.Name)
					}
					return env.object(obj)
				}
			}
		}
	}
	v := env.eval(n.X)
	return env.fieldOf(v, n.Sel.Name)
}

func (env *SpecEnv) fieldOf(v *Val, name string) *Val {
	t := v.Ty
	obj, index, _ := types.LookupFieldOrMethod(t, true, env.pkg, name)
	if obj == nil {
		// unexported field of another package: search manually
		index = findField(t, name)
		if index == nil {
			sfail("no field %s in %v", name, t)
		}
	} else if _, ok := obj.(*types.Var); !ok {
		sfail("%s is a method; call it", name)
	}
	cur := v
	for _, i := range index {
		if isPointer(cur.Ty) {
			p := env.x.ptrOf(cur)
			ft := under(ptrElem(cur.Ty)).(*types.Struct).Field(i).Type()
			cur = env.x.loadPath(env.st, p.extend(psel{field: i}, ft))
		} else {
			cur = cur.field(i)
		}
	}
	return cur
}

func findField(t types.Type, name string) []int {
	if isPointer(t) {
		t = ptrElem(t)
	}
	st, ok := under(t).(*types.Struct)
	if !ok {
		return nil
	}
	for i := 0; i < st.NumFields(); i++ {
		if st.Field(i).Name() == name {
			return []int{i}
		}
	}
	for i := 0; i < st.NumFields(); i++ {
		if st.Field(i).Embedded() {
			if sub := findField(st.Field(i).Type(), name); sub != nil {
				return append([]int{i}, sub...)
			}
		}
	}
	return nil
}

func (env *SpecEnv) coerce(v *Val, t types.Type) *Val {
	if isUntyped(v.Ty) {
		if isIface(t) || isPointer(t) || isSlice(t) || isMap(t) {
			return zeroVal(t) // nil
		}
		return &Val{Ty: t, L: v.L, X: v.X}
	}
	return v
}

func (env *SpecEnv) binary(n *ast.BinaryExpr) *Val {
	x := env.x
	switch n.Op {
	case token.LAND:
		return mkBool(tAnd(env.eval(n.X).T(), env.eval(n.Y).T()))
	case token.LOR:
		return mkBool(tOr(env.eval(n.X).T(), env.eval(n.Y).T()))
	}
	a := env.eval(n.X)
	b := env.eval(n.Y)
	if isUntyped(a.Ty) && !isUntyped(b.Ty) {
		a = env.coerce(a, b.Ty)
	} else if isUntyped(b.Ty) && !isUntyped(a.Ty) {
		b = env.coerce(b, a.Ty)
	}
	switch n.Op {
	case token.EQL:
		return mkBool(x.valEq(env.st, a, b))
	case token.NEQ:
		return mkBool(tNot(x.valEq(env.st, a, b)))
	}
	if isString(a.Ty) && n.Op == token.ADD {
		return x.strConcat(env.st, a, b, a.Ty)
	}
	if isString(a.Ty) && (n.Op == token.LSS || n.Op == token.LEQ || n.Op == token.GTR || n.Op == token.GEQ) {
		return mkBool(x.strCompare(n.Op, a, b))
	}
	if len(a.L) != 1 || len(b.L) != 1 {
		sfail("operator %s on composite values", n.Op)
	}
	at, bt := a.L[0], b.L[0]
	switch n.Op {
	case token.LSS:
		return mkBool(tCmp("<", at, bt))
	case token.LEQ:
		return mkBool(tCmp("<=", at, bt))
	case token.GTR:
		return mkBool(tCmp(">", at, bt))
	case token.GEQ:
		return mkBool(tCmp(">=", at, bt))
	case token.ADD:
		return &Val{Ty: a.Ty, L: []string{tAdd(at, bt)}}
	case token.SUB:
		return &Val{Ty: a.Ty, L: []string{tSub(at, bt)}}
	case token.MUL:
		return &Val{Ty: a.Ty, L: []string{tMul(at, bt)}}
	case token.QUO, token.REM, token.SHL, token.SHR, token.AND, token.OR, token.XOR, token.AND_NOT:
		rt := a.Ty
		if isUntyped(rt) {
			rt = types.Typ[types.Int]
			a = &Val{Ty: rt, L: a.L}
			b = &Val{Ty: rt, L: b.L}
		}
		return x.binop(env.st, n.Op, a, b, rt, token.NoPos, false)
	}
	sfail("unsupported operator %s", n.Op)
	return nil
}

func (env *SpecEnv) index(n *ast.IndexExpr) *Val {
	x := env.x
	base := env.eval(n.X)
	idx := env.eval(n.Index)
	if isMap(base.Ty) {
		v, _ := x.mapLookup(env.st, base, env.coerce(idx, under(base.Ty).(*types.Map).Key()))
		return v
	}
	i := idx.T()
	switch {
	case base.Seq:
		return seqIndex(base.L, sliceElem(base.Ty), i)
	case isString(base.Ty):
		return mkInt(types.Typ[types.Uint8], tSel(base.L[0], tAdd(base.L[1], i)))
	case isSlice(base.Ty):
		return x.loadPath(env.st, x.elemPath(base, i))
	case isArray(base.Ty):
		return base.arrIndex(i)
	case isPointer(base.Ty) && isArray(ptrElem(base.Ty)):
		return env.deref(base).arrIndex(i)
	}
	sfail("cannot index %v", base.Ty)
	return nil
}

func (env *SpecEnv) slice(n *ast.SliceExpr) *Val {
	base := env.eval(n.X)
	lo := "0"
	if n.Low != nil {
		lo = env.eval(n.Low).T()
	}
	hi := ""
	if n.High != nil {
		hi = env.eval(n.High).T()
	}
	switch {
	case base.Seq || isString(base.Ty):
		if hi == "" {
			hi = seqLen(base.L)
		}
		nl := append([]string(nil), base.L[:len(base.L)-2]...)
		nl = append(nl, tAdd(seqOff(base.L), lo), tSub(hi, lo))
		return &Val{Ty: base.Ty, L: nl, Seq: base.Seq}
	case isSlice(base.Ty):
		if hi == "" {
			hi = base.L[2]
		}
		return &Val{Ty: base.Ty, L: []string{base.L[0], tAdd(base.L[1], lo), tSub(hi, lo), tSub(base.L[3], lo)}}
	}
	sfail("cannot slice %v", base.Ty)
	return nil
}

func (env *SpecEnv) resolveType(e ast.Expr) types.Type {
	t := env.x.w.resolveType(env.pkg, e)
	if t == nil {
		sfail("cannot resolve type %s", exprString(e))
	}
	return t
}

func exprString(e ast.Expr) string { return types.ExprString(e) }

func (env *SpecEnv) call(n *ast.CallExpr) *Val {
	x := env.x
	if id, ok := n.Fun.(*ast.Ident); ok {
		switch id.Name {
		case "implies_":
			return mkBool(tImp(env.flip().eval(n.Args[0]).T(), env.eval(n.Args[1]).T()))
		case "iff_":
			m := env.mixed()
			return mkBool(tEq(m.eval(n.Args[0]).T(), m.eval(n.Args[1]).T()))
		case "forall_", "exists_":
			return env.quant(id.Name == "forall_", n)
		case "forall_t", "exists_t":
			return env.quantTyped(id.Name == "forall_t", n)
		case "old":
			if env.old == nil {
				sfail("old() not available here")
			}
			sub := *env
			sub.st = env.old
			return sub.eval(n.Args[0])
		case "cbcount":
			k := env.eval(n.Args[0])
			ci := x.cbFor(k.T())
			if ci == nil {
				sfail("no callback %s", k.T())
			}
			return mkInt(types.Typ[types.Int], ci.count)
		case "cbarg0", "cbarg1", "cbarg2", "_a0", "_a1", "_a2":
			var ci *cbInfo
			var idx string
			if strings.HasPrefix(id.Name, "_a") {
				ci = x.cbs[env.cbOrd]
				idx = env.eval(n.Args[0]).T()
			} else {
				ci = x.cbFor(env.eval(n.Args[0]).T())
				idx = env.eval(n.Args[1]).T()
			}
			if ci == nil {
				sfail("%s: no such callback", id.Name)
			}
			j := int(id.Name[len(id.Name)-1] - '0')
			if j >= len(ci.args) {
				sfail("%s: callback has %d parameters", id.Name, len(ci.args))
			}
			out := &Val{Ty: ci.ptypes[j], L: make([]string, len(ci.args[j]))}
			for l, a := range ci.args[j] {
				out.L[l] = tSel(a, idx)
			}
			x.typeFacts(out)
			return out
		case "last", "last1", "last2", "last3", "last4":
			fid, ok := n.Args[0].(*ast.Ident)
			if !ok {
				sfail("last(f): f must be a function or method name")
			}
			k := 0
			if id.Name != "last" {
				k = int(id.Name[4] - '0')
			}
			cells := x.lastCalls[fid.Name]
			if k >= len(cells) {
				// not executed yet on any path: if the function under
				// verification calls it somewhere, the value is simply unknown
				// here - but it is ONE unknown: the cell is created now, so that a
				// loop invariant and a gate that both mention last(f) before the
				// first call speak about the same value
				for i := len(cells); i <= k; i++ {
					t := x.lastCallType(fid.Name, i)
					if t == nil {
						sfail("last(%s): no call to %s with result %d was executed", fid.Name, fid.Name, k)
					}
					cells = append(cells, x.newCell("last_"+fid.Name, t, token.NoPos))
				}
				if x.lastCalls == nil {
					x.lastCalls = map[string][]*Cell{}
				}
				x.lastCalls[fid.Name] = cells
			}
			v, ok := env.st.cells[cells[k]]
			if !ok {
				// no call on this path: the value is unknown (nothing can be
				// proved from it), which is what a path without the call deserves
				v = x.freshVal("last_"+fid.Name+"_none", cells[k].ty)
				env.st.cells[cells[k]] = v
			}
			return v
		case "has":
			m := env.eval(n.Args[0])
			if !isMap(m.Ty) {
				sfail("has() needs a map")
			}
			k := env.coerce(env.eval(n.Args[1]), under(m.Ty).(*types.Map).Key())
			return mkBool(tAnd(tNot(tEq(m.L[0], "0")), x.mapHas(env.st, m, x.mapKey(env.st, m.Ty, k))))
		case "visited":
			if env.visited == "" {
				sfail("visited() is only available in invariants of a range-over-map loop")
			}
			k := env.eval(n.Args[0])
			if isString(k.Ty) {
				return mkBool(tSel(env.visited, x.strID(k)))
			}
			if env.visitedM != nil {
				kt := under(env.visitedM.Ty).(*types.Map).Key()
				return mkBool(tSel(env.visited, x.mapKey(env.st, env.visitedM.Ty, env.coerce(k, kt))))
			}
			return mkBool(tSel(env.visited, k.L[0]))
		case "entry":
			if env.entry == nil {
				sfail("entry() is only available in loop clauses")
			}
			sub := *env
			sub.st = env.entry
			return sub.eval(n.Args[0])
		case "ite":
			c := env.eval(n.Args[0]).T()
			a := env.eval(n.Args[1])
			b := env.eval(n.Args[2])
			if isUntyped(a.Ty) {
				a = env.coerce(a, b.Ty)
			} else if isUntyped(b.Ty) {
				b = env.coerce(b, a.Ty)
			}
			return iteVal(c, a, b)
		case "len":
			v := env.eval(n.Args[0])
			switch {
			case v.Seq:
				return mkInt(types.Typ[types.Int], seqLen(v.L))
			case isString(v.Ty) || isSlice(v.Ty):
				return mkInt(types.Typ[types.Int], v.L[2])
			case isArray(v.Ty):
				return mkInt(types.Typ[types.Int], num(under(v.Ty).(*types.Array).Len()))
			case isMap(v.Ty):
				return mkInt(types.Typ[types.Int], x.mapCard(env.st, v))
			}
			sfail("len of %v", v.Ty)
		case "cap":
			v := env.eval(n.Args[0])
			if isSlice(v.Ty) && !v.Seq {
				return mkInt(types.Typ[types.Int], v.L[3])
			}
			sfail("cap of %v", v.Ty)
		case "min", "max":
			r := env.eval(n.Args[0])
			for _, ae := range n.Args[1:] {
				a := env.eval(ae)
				if isUntyped(r.Ty) {
					r = env.coerce(r, a.Ty)
				}
				op := "<="
				if id.Name == "max" {
					op = ">="
				}
				r = &Val{Ty: r.Ty, L: []string{tIte(tCmp(op, r.T(), a.T()), r.T(), a.T())}}
			}
			return r
		case "seq":
			v := env.eval(n.Args[0])
			if v.Seq {
				return v
			}
			s := x.seqOf(env.st, v)
			ty := v.Ty
			if isString(ty) {
				ty = types.NewSlice(types.Typ[types.Uint8])
			}
			return &Val{Ty: ty, L: s, Seq: true}
		case "bytesEq":
			a := env.eval(n.Args[0])
			b := env.eval(n.Args[1])
			return mkBool(x.seqEq(x.seqOf(env.st, a), x.seqOf(env.st, b), litOf(a), litOf(b)))
		case "sameStr":
			a := env.eval(n.Args[0])
			b := env.eval(n.Args[1])
			return mkBool(tAnd(tEq(a.L[0], b.L[0]), tEq(a.L[1], b.L[1]), tEq(a.L[2], b.L[2])))
		case "sameSlice":
			a := env.eval(n.Args[0])
			b := env.eval(n.Args[1])
			return mkBool(tAnd(tEq(a.L[0], b.L[0]), tEq(a.L[1], b.L[1]), tEq(a.L[2], b.L[2])))
		case "backing":
			a := env.eval(n.Args[0])
			return mkInt(types.Typ[types.Int], a.L[0])
		case "fresh":
			a := env.eval(n.Args[0])
			if env.old == nil {
				sfail("fresh() needs an old state")
			}
			return mkBool(tCmp(">", a.L[0], env.old.allocTop))
		case "isErr":
			a := env.eval(n.Args[0])
			b := env.eval(n.Args[1])
			if _, isIface := under(b.Ty).(*types.Interface); !isIface && !isUntyped(b.Ty) {
				// a concrete sentinel (syscall.ENOTSUP): boxed exactly like the code does
				b = x.makeIface(env.st, b, types.Universe.Lookup("error").Type())
			}
			return mkBool(x.errorsIs(a.L[0], b.L[0]))
		case "typeIs":
			a := env.eval(n.Args[0])
			t := env.resolveType(n.Args[1])
			return mkBool(tAnd(tNot(tEq(a.L[0], "0")), tEq("(typeof_ "+a.L[0]+")", num(x.typeCode(t)))))
		case "events":
			// number of effectful calls since the entry of the function the
			// contract belongs to (at a call site: since the call began)
			if env.evBase != "" {
				return mkInt(types.Typ[types.Int], tSub(env.st.events, env.evBase))
			}
			return mkInt(types.Typ[types.Int], env.st.events)
		}
		if _, isVar := env.vars[id.Name]; !isVar {
			if sf := x.w.specFunc(env.pkg, id.Name); sf != nil {
				args := make([]*Val, len(n.Args))
				for i, a := range n.Args {
					args[i] = env.eval(a)
				}
				return env.callSpec(sf, args)
			}
		}
		// conversion?
		if t := x.w.resolveType(env.pkg, n.Fun); t != nil && len(n.Args) == 1 {
			return env.convert(env.eval(n.Args[0]), t)
		}
	} else if sf := env.qualifiedSpec(n.Fun); sf != nil {
		args := make([]*Val, len(n.Args))
		for i, a := range n.Args {
			args[i] = env.eval(a)
		}
		return env.callSpec(sf, args)
	} else if t := x.w.resolveTypeQuiet(env.pkg, n.Fun); t != nil && len(n.Args) == 1 {
		return env.convert(env.eval(n.Args[0]), t)
	}
	// method call or function call on real code
	return env.callReal(n)
}

func (x *Exec) cbFor(ordLit string) *cbInfo {
	n, ok := isNumLit(ordLit)
	if !ok || !n.IsInt64() {
		return nil
	}
	return x.cbs[int(n.Int64())]
}

func (env *SpecEnv) convert(v *Val, t types.Type) *Val {
	switch {
	case isInteger(t) && (isInteger(v.Ty) || isUntyped(v.Ty)):
		return &Val{Ty: t, L: v.L} // mathematical: no wrap in specs
	case isString(t) && (isSlice(v.Ty) || v.Seq):
		s := env.x.seqOf(env.st, v)
		return &Val{Ty: t, L: s}
	case nLeaves(t) == len(v.L):
		return &Val{Ty: t, L: v.L, X: v.X}
	}
	sfail("unsupported conversion %v -> %v", v.Ty, t)
	return nil
}

func (env *SpecEnv) quant(forall bool, n *ast.CallExpr) *Val {
	x := env.x
	if len(n.Args) != 4 {
		sfail("quantifier needs (var, lo, hi, body)")
	}
	id, ok := n.Args[0].(*ast.Ident)
	if !ok {
		sfail("quantifier variable must be an identifier")
	}
	lo := env.eval(n.Args[1]).T()
	hi := env.eval(n.Args[2]).T()
	x.vc.nfresh++
	bv := fmt.Sprintf("%s!%d", sanitize(id.Name), x.vc.nfresh)
	sub := env.child()
	sub.vars[id.Name] = mkInt(types.Typ[types.Int], bv)
	facts, body := x.captured(func() string { return sub.eval(n.Args[3]).T() }, bv)
	{
		var ps []string
		lo, hi, ps = reindex(bv, lo, hi, facts, body)
		facts, body = ps[0], ps[1]
	}
	rng := tAnd(tCmp("<=", lo, bv), tCmp("<", bv, hi))
	if forall {
		if env.pol == -1 && !strings.Contains(body, "(exists ") {
			// assumed: the side facts are valid type invariants of memory; using
			// them as hypotheses would only make the assumption harder to apply
			// (kept for forall-exists shapes, where they curb instantiation)
			return mkBool("(forall ((" + bv + " Int)) " + tImp(rng, body) + ")")
		}
		return mkBool("(forall ((" + bv + " Int)) " + tImp(tAnd(rng, facts), body) + ")")
	}
	return mkBool("(exists ((" + bv + " Int)) " + tAnd(rng, facts, body) + ")")
}

func (env *SpecEnv) quantTyped(forall bool, n *ast.CallExpr) *Val {
	x := env.x
	id, ok := n.Args[0].(*ast.Ident)
	if !ok {
		sfail("quantifier variable must be an identifier")
	}
	// second arg is (T)(nil)
	ce, ok := n.Args[1].(*ast.CallExpr)
	if !ok {
		sfail("typed quantifier header")
	}
	t := env.resolveType(ce.Fun)
	ss := leafSorts(t)
	x.vc.nfresh++
	var binders []string
	bvv := &Val{Ty: t, L: make([]string, len(ss))}
	for j, s := range ss {
		bvv.L[j] = fmt.Sprintf("%s!%d_%d", sanitize(id.Name), x.vc.nfresh, j)
		binders = append(binders, "("+bvv.L[j]+" "+s+")")
	}
	sub := env.child()
	sub.vars[id.Name] = bvv
	domain, _ := x.captured(func() string {
		x.typeFacts(bvv)
		return "true"
	})
	facts, body := x.captured(func() string {
		return sub.eval(n.Args[2]).T()
	}, bvv.L...)
	if forall {
		if env.pol == -1 {
			return mkBool("(forall (" + strings.Join(binders, " ") + ") " + tImp(domain, body) + ")")
		}
		return mkBool("(forall (" + strings.Join(binders, " ") + ") " + tImp(tAnd(domain, facts), body) + ")")
	}
	return mkBool("(exists (" + strings.Join(binders, " ") + ") " + tAnd(domain, facts, body) + ")")
}

// captured runs f while collecting (instead of asserting) the side facts it
// generates; they mention bound variables and must stay under the binder.
func (x *Exec) captured(f func() string, bound ...string) (facts string, body string) {
	vc := x.vc
	saved := vc.capture
	var local []string
	vc.capture = &local
	func() {
		defer func() { vc.capture = saved }()
		body = f()
	}()
	// facts that do not mention the bound variables hold outside the binder:
	// hand them to the enclosing context (they are then available when the
	// quantified formula is instantiated)
	var keep []string
	for _, t := range local {
		mentions := len(bound) == 0
		for _, b := range bound {
			if strings.Contains(t, b) {
				mentions = true
			}
		}
		if mentions {
			keep = append(keep, t)
		} else {
			vc.assume(t)
		}
	}
	return tAnd(keep...), body
}

func (env *SpecEnv) callSpec(sf *SpecFunc, args []*Val) *Val {
	x := env.x
	if len(args) != len(sf.Params) {
		sfail("spec func %s: %d args, want %d", sf.Name, len(args), len(sf.Params))
	}
	spkg := x.w.typesPkg(sf.PkgPath)
	rt := x.w.resolveType(spkg, sf.Ret)
	if rt == nil {
		sfail("spec func %s: cannot resolve result type", sf.Name)
	}
	ptypes := make([]types.Type, len(sf.Params))
	for i, p := range sf.Params {
		ptypes[i] = x.w.resolveType(spkg, p.Type)
		if ptypes[i] == nil {
			sfail("spec func %s: cannot resolve type of %s", sf.Name, p.Name)
		}
	}
	if sf.Body == nil || sf.Rec {
		// uninterpreted or recursive: SMT function over flattened arguments
		name := "spec_" + sf.Name
		var flat []string
		var sorts []string
		for i, a := range args {
			a = env.coerce(a, ptypes[i])
			if isSlice(ptypes[i]) {
				var s []string
				if a.Seq {
					s = a.L
				} else {
					s = x.seqOf(env.st, a)
				}
				flat = append(flat, s...)
				sorts = append(sorts, seqSorts(sliceElem(ptypes[i]))...)
			} else if fs, ok := flatKeySorts(ptypes[i]); ok && sf.Body == nil && containsArray(ptypes[i]) && len(a.L) == len(leafSorts(ptypes[i])) {
				// fixed-size arrays inside an argument of an uninterpreted
				// function are passed element by element: two values that agree
				// on every element are the same argument (an SMT array term also
				// has elements outside the Go array's range)
				flat = append(flat, x.flatKeyTerms(a)...)
				sorts = append(sorts, fs...)
			} else {
				flat = append(flat, a.L...)
				sorts = append(sorts, leafSorts(ptypes[i])...)
			}
		}
		rs := leafSorts(rt)
		if len(rs) != 1 && sf.Body != nil {
			sfail("spec func %s: composite result type needs an uninterpreted function", sf.Name)
		}
		if sf.Body == nil && len(rs) != 1 {
			// uninterpreted with a composite result: one SMT function per leaf
			out := &Val{Ty: rt, L: make([]string, len(rs))}
			for l, s := range rs {
				ln := fmt.Sprintf("%s_%d", name, l)
				if !x.vc.recDone[ln] {
					x.vc.recDone[ln] = true
					x.vc.recDefs = append(x.vc.recDefs, "(declare-fun "+ln+" ("+strings.Join(sorts, " ")+") "+s+")")
				}
				out.L[l] = "(" + ln + " " + strings.Join(flat, " ") + ")"
			}
			x.typeFacts(out)
			return out
		}
		if !x.vc.recDone[name] {
			x.vc.recDone[name] = true
			if sf.Body == nil {
				x.vc.recDefs = append(x.vc.recDefs, "(declare-fun "+name+" ("+strings.Join(sorts, " ")+") "+rs[0]+")")
			} else {
				sub := &SpecEnv{x: x, st: env.st, pkg: spkg, vars: map[string]*Val{}}
				var formals []string
				for i, p := range sf.Params {
					var fv *Val
					if isSlice(ptypes[i]) {
						fv = &Val{Ty: ptypes[i], Seq: true}
						for j, s := range seqSorts(sliceElem(ptypes[i])) {
							nm := fmt.Sprintf("p_%s_s%d", p.Name, j)
							fv.L = append(fv.L, nm)
							formals = append(formals, "("+nm+" "+s+")")
						}
					} else {
						ss := leafSorts(ptypes[i])
						fv = &Val{Ty: ptypes[i], L: make([]string, len(ss))}
						for j, s := range ss {
							fv.L[j] = fmt.Sprintf("p_%s_%d", p.Name, j)
							formals = append(formals, "("+fv.L[j]+" "+s+")")
						}
					}
					sub.vars[p.Name] = fv
				}
				_, body := x.captured(func() string {
					v := sub.eval(sf.Body)
					return sub.coerce(v, rt).T()
				})
				x.vc.recDefs = append(x.vc.recDefs, "(define-fun-rec "+name+" ("+strings.Join(formals, " ")+") "+rs[0]+" "+body+")")
			}
		}
		t := "(" + name + " " + strings.Join(flat, " ") + ")"
		if len(flat) == 0 {
			t = name
		}
		return &Val{Ty: rt, L: []string{t}}
	}
	if env.depth > 20 {
		sfail("spec func expansion too deep (missing recursion marker?) in %s", sf.Name)
	}
	sub := &SpecEnv{x: x, st: env.st, old: env.old, pkg: spkg, vars: map[string]*Val{}, depth: env.depth + 1, pol: env.pol}
	for i, p := range sf.Params {
		sub.vars[p.Name] = env.coerce(args[i], ptypes[i])
	}
	v := sub.eval(sf.Body)
	return sub.coerce(v, rt)
}

// callReal evaluates a call to real code (pure, loop-free) inside a clause by
// executing its SSA body without emitting obligations.
func (env *SpecEnv) callReal(n *ast.CallExpr) *Val {
	x := env.x
	var fn *ssa.Function
	var args []*Val
	switch f := n.Fun.(type) {
	case *ast.Ident:
		v := env.ident(f.Name)
		cl, ok := v.X.(*Closure)
		if !ok {
			sfail("%s is not a function", f.Name)
		}
		fn = cl.fn
	case *ast.SelectorExpr:
		// package function?
		if id, ok := f.X.(*ast.Ident); ok {
			if _, isVar := env.vars[id.Name]; !isVar {
				if p := env.importedPkg(id.Name); p != nil {
					obj := p.Scope().Lookup(f.Sel.Name)
					if fo, ok := obj.(*types.Func); ok {
						fn = x.w.prog.FuncValue(fo)
						if fn == nil {
							sfail("no SSA for %s.%s", id.Name, f.Sel.Name)
						}
						break
					}
					sfail("%s.%s is not a function", id.Name, f.Sel.Name)
				}
			}
		}
		recv := env.eval(f.X)
		obj, index, indirect := types.LookupFieldOrMethod(recv.Ty, true, env.pkg, f.Sel.Name)
		_ = indirect
		mo, ok := obj.(*types.Func)
		if !ok {
			sfail("no method %s on %v", f.Sel.Name, recv.Ty)
		}
		// walk embedded fields
		for _, i := range index[:len(index)-1] {
			if isPointer(recv.Ty) {
				p := x.ptrOf(recv)
				ft := under(ptrElem(recv.Ty)).(*types.Struct).Field(i).Type()
				recv = x.loadPath(env.st, p.extend(psel{field: i}, ft))
			} else {
				recv = recv.field(i)
			}
		}
		fn = x.w.prog.FuncValue(mo)
		if fn == nil {
			if isIface(recv.Ty) {
				sfail("interface method %s in a clause", f.Sel.Name)
			}
			sfail("no SSA for method %s", f.Sel.Name)
		}
		sig := mo.Type().(*types.Signature)
		wantPtr := isPointer(sig.Recv().Type())
		if wantPtr && !isPointer(recv.Ty) {
			sfail("method %s needs an addressable receiver", f.Sel.Name)
		}
		if !wantPtr && isPointer(recv.Ty) {
			recv = env.deref(recv)
		}
		args = append(args, recv)
	default:
		sfail("unsupported call %s", exprString(n.Fun))
	}
	sig := fn.Signature
	off := len(args)
	for i, a := range n.Args {
		v := env.eval(a)
		if i < sig.Params().Len() {
			v = env.coerce(v, sig.Params().At(i).Type())
		}
		args = append(args, v)
	}
	_ = off
	if fn.Blocks == nil {
		if h, ok := intrinsics[fn.String()]; ok {
			x.noObl++
			defer func() { x.noObl-- }()
			fr := x.newFrame(fn, env.frame)
			st := env.st.clone()
			r := h(fr, st, args, token.NoPos)
			if len(r) != 1 {
				sfail("call to %s in a clause must have one result", fn.Name())
			}
			return r[0]
		}
		if c := x.w.contractFor(fn); c != nil && c.Pure {
			// a pure function under contract: its result is whatever the contract says
			x.noObl++
			defer func() { x.noObl-- }()
			fr := x.newFrame(fn, env.frame)
			if env.frame != nil {
				fr = env.frame
			}
			st := env.st.clone()
			r := fr.callWithContract(st, c, fn, fn.Signature, fn.String(), args, token.NoPos)
			if len(r) != 1 {
				sfail("call to %s in a clause must have one result", fn.Name())
			}
			return r[0]
		}
		sfail("external function %s in a clause", fn.String())
	}
	if c := x.w.contractFor(fn); c != nil && c.Pure && hasLoop(fn) {
		x.noObl++
		defer func() { x.noObl-- }()
		fr := x.newFrame(fn, env.frame)
		if env.frame != nil {
			fr = env.frame
		}
		st := env.st.clone()
		r := fr.callWithContract(st, c, fn, fn.Signature, fn.String(), args, token.NoPos)
		if len(r) != 1 {
			sfail("call to %s in a clause must have one result", fn.Name())
		}
		return r[0]
	}
	if hasLoop(fn) {
		sfail("function %s has loops; it cannot be used in a clause", fn.String())
	}
	x.noObl++
	defer func() { x.noObl-- }()
	fr := x.newFrame(fn, env.frame)
	st := env.st.clone()
	out, vals := fr.run(st, args)
	if out == nil || len(vals) != 1 {
		sfail("call to %s in a clause must return one value", fn.Name())
	}
	return vals[0]
}

// errorsIs models errors.Is(err, target) for sentinel targets.
func (x *Exec) errorsIs(e, target string) string {
	return tAnd(tNot(tEq(e, "0")), tOr(tEq(e, target), "(unwraps_ "+e+" "+target+")"))
}

// qualifiedSpec resolves pkg.name to a spec function of an imported package.
func (env *SpecEnv) qualifiedSpec(f ast.Expr) *SpecFunc {
	sel, ok := f.(*ast.SelectorExpr)
	if !ok {
		return nil
	}
	id, ok := sel.X.(*ast.Ident)
	if !ok {
		return nil
	}
	if _, isVar := env.vars[id.Name]; isVar {
		return nil
	}
	p := env.importedPkg(id.Name)
	if p == nil {
		return nil
	}
	if sf, ok := env.x.w.specs[p.Path()+"."+sel.Sel.Name]; ok {
		return sf
	}
	return nil
}


// lastCallType: the type of result k of a call named name somewhere in the
// function under verification (or one of its closures); nil if there is none.
func (x *Exec) lastCallType(name string, k int) types.Type {
	if x.top == nil {
		return nil
	}
	var found types.Type
	var visit func(f *ssa.Function)
	visit = func(f *ssa.Function) {
		for _, b := range f.Blocks {
			for _, ins := range b.Instrs {
				ci, ok := ins.(ssa.CallInstruction)
				if !ok || found != nil {
					continue
				}
				cc := ci.Common()
				if lastCallName(cc) != name {
					continue
				}
				res := cc.Signature().Results()
				if k < res.Len() {
					found = res.At(k).Type()
				}
			}
		}
		for _, af := range f.AnonFuncs {
			visit(af)
		}
	}
	visit(x.top.outermost())
	return found
}

func containsArray(t types.Type) bool {
	switch u := under(t).(type) {
	case *types.Array:
		return true
	case *types.Struct:
		for i := 0; i < u.NumFields(); i++ {
			if containsArray(u.Field(i).Type()) {
				return true
			}
		}
	}
	return false
}
