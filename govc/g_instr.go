package main

import (
	"fmt"
	"go/constant"
	"go/token"
	"go/types"
	"math/big"
	"strings"

	"golang.org/x/tools/go/ssa"
)

type ArrLink struct {
	path *PtrPath
	ref  string
	elem types.Type
}

// value of an SSA operand
func (fr *Frame) val(st *State, v ssa.Value) *Val {
	x := fr.x
	switch vv := v.(type) {
	case *ssa.Const:
		return x.constVal(vv)
	case *ssa.Global:
		c := x.globalCell(vv)
		pt := ptrElem(vv.Type())
		return &Val{Ty: vv.Type(), L: []string{x.ptrTok()}, X: &PtrPath{Base: pbCell, Cell: c, BaseTy: pt, Ty: pt}}
	case *ssa.Function:
		return &Val{Ty: vv.Type(), L: []string{"1"}, X: &Closure{fn: vv}}
	case *ssa.Builtin:
		return &Val{Ty: vv.Type(), L: []string{"1"}, X: vv}
	case *ssa.FreeVar:
		if r, ok := fr.freeVars[vv]; ok {
			return r
		}
		// closure verified on its own: captured variable is an unknown cell
		pt := ptrElem(vv.Type())
		c := x.newCell(vv.Name(), pt, vv.Pos())
		c.lazy = true
		st.cells[c] = x.freshVal(vv.Name(), pt)
		r := &Val{Ty: vv.Type(), L: []string{x.ptrTok()}, X: &PtrPath{Base: pbCell, Cell: c, BaseTy: pt, Ty: pt}}
		if !isPointer(vv.Type()) {
			r = x.freshVal(vv.Name(), vv.Type())
		}
		fr.freeVars[vv] = r
		return r
	}
	if r, ok := fr.regs[v]; ok {
		return r
	}
	// value defined on a path we did not execute (dead) or unsupported
	r := x.freshVal(v.Name(), v.Type())
	fr.regs[v] = r
	return r
}

func (x *Exec) constVal(c *ssa.Const) *Val {
	t := c.Type()
	if c.Value == nil {
		return zeroVal(t)
	}
	switch c.Value.Kind() {
	case constant.Bool:
		if constant.BoolVal(c.Value) {
			return &Val{Ty: t, L: []string{"true"}}
		}
		return &Val{Ty: t, L: []string{"false"}}
	case constant.String:
		v := x.strLit(constant.StringVal(c.Value))
		return &Val{Ty: t, L: v.L, X: v.X}
	case constant.Int:
		if isFloat(t) {
			return x.floatConst(c.Value.ExactString(), t)
		}
		n, _ := new(big.Int).SetString(c.Value.ExactString(), 10)
		return &Val{Ty: t, L: []string{bignum(n)}}
	case constant.Float, constant.Complex:
		return x.floatConst(c.Value.ExactString(), t)
	}
	return x.freshVal("const", t)
}

func (x *Exec) floatConst(s string, t types.Type) *Val {
	name := "flt_" + sanitize(s)
	x.vc.declare(name, sInt)
	return &Val{Ty: t, L: []string{name}}
}

func (x *Exec) globalCell(g *ssa.Global) *Cell {
	if c, ok := x.globals[g]; ok {
		return c
	}
	c := x.newCell(g.Name(), ptrElem(g.Type()), g.Pos())
	c.global = g
	x.globals[g] = c
	return c
}

// initial value of a global when first read in a state
func (x *Exec) globalInit(st *State, c *Cell) *Val {
	g := c.global
	if n, ok := x.w.constGlobal(g); ok {
		v := &Val{Ty: c.ty, L: []string{bignum(n)}}
		st.cells[c] = v
		return v
	}
	if isString(c.ty) {
		if s, ok := x.w.constStringGlobal(g); ok {
			lit := x.strLit(s)
			v := &Val{Ty: c.ty, L: lit.L, X: lit.X}
			st.cells[c] = v
			return v
		}
	}
	if isIface(c.ty) && x.w.sentinelGlobal(g) {
		code := x.w.sentinelCode(g)
		v := &Val{Ty: c.ty, L: []string{num(code)}}
		st.cells[c] = v
		return v
	}
	key := "g_" + sanitize(g.Pkg.Pkg.Path()+"."+g.Name())
	ss := leafSorts(c.ty)
	v := &Val{Ty: c.ty, L: make([]string, len(ss))}
	for i, s := range ss {
		v.L[i] = x.vc.declare(fmt.Sprintf("%s_%d", key, i), s)
	}
	if sig, ok := under(c.ty).(*types.Signature); ok && sig != nil {
		v.X = &GlobalFn{name: g.Pkg.Pkg.Path() + "." + g.Name()}
	}
	x.typeFacts(v)
	st.cells[c] = v
	return v
}

func (fr *Frame) set(ins ssa.Value, v *Val) { fr.regs[ins] = v }

// ptrTok: SMT-level stand-in for an executor-level pointer (never nil; its
// identity is otherwise unconstrained).
func (x *Exec) ptrTok() string {
	t := x.vc.fresh("ptr", sInt)
	x.vc.assume(tCmp(">", t, "0"))
	return t
}

func (x *Exec) unsupported(fr *Frame, st *State, ins ssa.Instruction, why string) {
	x.vc.diag("%s: unsupported %T (%s): %s", fr.fn.String(), ins, why, x.w.fset.Position(ins.Pos()))
	x.havocAllHeaps(st)
	if v, ok := ins.(ssa.Value); ok {
		fr.set(v, x.freshVal(v.Name(), v.Type()))
	}
}

// step executes one non-control instruction.
func (fr *Frame) step(st *State, ins ssa.Instruction) {
	x := fr.x
	defer func() {
		if r := recover(); r != nil {
			if _, ok := r.(abortExec); ok {
				panic(r)
			}
			x.unsupported(fr, st, ins, fmt.Sprint(r))
		}
	}()
	x.vc.pcNow = st.pc
	if gc := fr.gateContract(); gc != nil && len(gc.Reach) > 0 {
		fr.reachCheck(st, ins, gc)
	}
	switch in := ins.(type) {
	case *ssa.DebugRef:
	case *ssa.Alloc:
		fr.execAlloc(st, in)
	case *ssa.Store:
		fr.execStore(st, in)
	case *ssa.UnOp:
		fr.execUnOp(st, in)
	case *ssa.BinOp:
		fr.set(in, fr.execBinOp(st, in))
	case *ssa.FieldAddr:
		base := fr.val(st, in.X)
		fr.nilCheck(st, base, in.Pos(), in)
		p := x.ptrOf(base)
		ft := under(ptrElem(in.X.Type())).(*types.Struct).Field(in.Field).Type()
		np := p.extend(psel{field: in.Field}, ft)
		fr.set(in, &Val{Ty: in.Type(), L: []string{x.ptrTok()}, X: np})
	case *ssa.Field:
		fr.set(in, fr.val(st, in.X).field(in.Field))
	case *ssa.IndexAddr:
		fr.execIndexAddr(st, in)
	case *ssa.Index:
		fr.execIndex(st, in)
	case *ssa.Slice:
		fr.execSlice(st, in)
	case *ssa.MakeSlice:
		ln := fr.val(st, in.Len).T()
		cp := fr.val(st, in.Cap).T()
		x.oblige(st, "bounds", "make "+x.w.nodeTextAt(in.Pos()), in.Pos(), tAnd(tCmp("<=", "0", ln), tCmp("<=", ln, cp)), nil, true)
		x.vc.assume(tImp(st.pc, tAnd(tCmp("<=", "0", ln), tCmp("<=", ln, cp))))
		r := x.allocBacking(st, sliceElem(in.Type()))
		fr.set(in, &Val{Ty: in.Type(), L: []string{r, "0", ln, cp}})
	case *ssa.Convert:
		fr.execConvert(st, in)
	case *ssa.ChangeType:
		v := fr.val(st, in.X)
		fr.set(in, &Val{Ty: in.Type(), L: v.L, X: v.X})
	case *ssa.ChangeInterface:
		v := fr.val(st, in.X)
		fr.set(in, &Val{Ty: in.Type(), L: v.L, X: v.X})
	case *ssa.MakeInterface:
		fr.set(in, x.makeIface(st, fr.val(st, in.X), in.Type()))
	case *ssa.TypeAssert:
		fr.execTypeAssert(st, in)
	case *ssa.Extract:
		tv := fr.val(st, in.Tuple)
		tup := in.Tuple.Type().(*types.Tuple)
		lo := 0
		for k := 0; k < in.Index; k++ {
			lo += nLeaves(tup.At(k).Type())
		}
		n := nLeaves(tup.At(in.Index).Type())
		out := &Val{Ty: tup.At(in.Index).Type(), L: tv.L[lo : lo+n : lo+n]}
		if xs, ok := tv.X.([]any); ok {
			out.X = xs[in.Index]
		}
		fr.set(in, out)
	case *ssa.Phi:
		// handled at block entry
	case *ssa.Call:
		fr.execCall(st, in)
	case *ssa.MakeClosure:
		cl := &Closure{fn: in.Fn.(*ssa.Function)}
		for _, b := range in.Bindings {
			cl.bindings = append(cl.bindings, fr.val(st, b))
		}
		fr.set(in, &Val{Ty: in.Type(), L: []string{"1"}, X: cl})
	case *ssa.Defer:
		d := &deferRec{call: in, pc: st.pc}
		if !in.Call.IsInvoke() {
			d.fnv = fr.val(st, in.Call.Value)
		} else {
			d.fnv = fr.val(st, in.Call.Value)
		}
		for _, a := range in.Call.Args {
			d.args = append(d.args, fr.val(st, a))
		}
		fr.defers = append(fr.defers, d)
	case *ssa.RunDefers:
		fr.runDefers(st)
	case *ssa.Go:
		x.vc.diag("%s: go statement: spawned function not executed here", fr.fn.String())
		fr.havocForUnknownCall(st, in.Call.Args, nil)
	case *ssa.Range:
		fr.execRange(st, in)
	case *ssa.Next:
		fr.execNext(st, in)
	case *ssa.MakeMap:
		fr.execMakeMap(st, in)
	case *ssa.MapUpdate:
		fr.execMapUpdate(st, in)
	case *ssa.Lookup:
		fr.execLookup(st, in)
	case *ssa.MakeChan:
		fr.set(in, &Val{Ty: in.Type(), L: []string{x.newRef(st)}})
	case *ssa.Send:
		fr.execSend(st, in)
	case *ssa.Select:
		fr.execSelect(st, in)
	case *ssa.SliceToArrayPointer:
		x.unsupported(fr, st, in, "slice to array pointer")
	case *ssa.MultiConvert:
		x.unsupported(fr, st, in, "multiconvert")
	default:
		x.unsupported(fr, st, ins, "instruction")
	}
}

// reachCheck: gate obligations attached to statements by their source text.
// gateContract: the contract whose gates apply to the statements this frame
// executes: its own (top-level frame), or the contract of the function under
// verification when the frame runs one of its closure literals in place.
func (fr *Frame) gateContract() *FuncContract {
	if fr.depth == 0 {
		return fr.contract
	}
	x := fr.x
	if fr.fn.Parent() != nil && x.top != nil && x.top.contract != nil && fr.outermost() == x.top.outermost() {
		return x.top.contract
	}
	return nil
}

func (fr *Frame) reachCheck(st *State, ins ssa.Instruction, gc *FuncContract) {
	x := fr.x
	pos := ins.Pos()
	if !pos.IsValid() {
		return
	}
	txt := normText(x.w.stmtTextAt(pos))
	// gates keyed by callee ("call:Name"): every call instruction whose callee
	// has that (unqualified) name, wherever it occurs; _c0, _c1, ... denote the
	// arguments (the receiver of a method call is _c0)
	callKey, callKeyQ := "", ""
	var callArgs []ssa.Value
	if ci, ok := ins.(ssa.CallInstruction); ok {
		if n := lastCallName(ci.Common()); n != "" {
			callKey = "call:" + n
			// qualified form: call:pkg.Func, call:Type.Method (receiver type name
			// without package and pointer)
			cc0 := ci.Common()
			if cc0.IsInvoke() {
				if nt, ok := cc0.Value.Type().(*types.Named); ok {
					callKeyQ = "call:" + nt.Obj().Name() + "." + n
				}
			} else if sf := cc0.StaticCallee(); sf != nil {
				if o := sf.Origin(); o != nil {
					sf = o // instance of a generic function
				}
				if recv := sf.Signature.Recv(); recv != nil {
					rt := recv.Type()
					if pt, ok := rt.(*types.Pointer); ok {
						rt = pt.Elem()
					}
					if nt, ok := rt.(*types.Named); ok {
						callKeyQ = "call:" + nt.Obj().Name() + "." + n
					}
				} else if sf.Pkg != nil {
					callKeyQ = "call:" + sf.Pkg.Pkg.Name() + "." + n
				}
			}
			cc := ci.Common()
			if cc.IsInvoke() {
				callArgs = append(callArgs, cc.Value)
			}
			callArgs = append(callArgs, cc.Args...)
		}
	}
	_ = callKeyQ
	// a deferred call is gated where it runs (function exit), with the argument
	// values captured at the defer statement - not where it is registered
	var deferVals []*Val
	coverOnly := false // at the defer statement: only the reachability cover of the gate
	if _, isDefer := ins.(*ssa.Defer); isDefer {
		if fr.runningDefer == nil {
			coverOnly = true
		} else {
			txt = ""
			d := fr.runningDefer
			if d.call.Call.IsInvoke() {
				deferVals = append(deferVals, d.fnv)
			}
			deferVals = append(deferVals, d.args...)
		}
	}
	if txt == "" && callKey == "" {
		return
	}
	if syn := fr.fn.Syntax(); syn != nil && fr.fn.Parent() != nil {
		// inside a closure only the statements of its own body count
		if sp, ok := x.w.stmtPos[pos]; ok && (sp < syn.Pos() || sp >= syn.End()) {
			return
		}
	}
	for _, rc := range gc.Reach {
		isCallGate := strings.HasPrefix(rc.Stmt, "call:")
		if isCallGate {
			if rc.Stmt != callKey && rc.Stmt != callKeyQ {
				continue
			}
			// N "call:Name": only the N-th call of that name in source order
			// (within the outermost source function, function literals included)
			if rc.Nth > 0 && x.w.callOrdinal(fr.fn, ins.Pos(), strings.TrimPrefix(callKey, "call:")) != rc.Nth {
				continue
			}
		} else {
			if txt == "" {
				continue
			}
			if rc.Stmt != txt {
				// "prefix..." matches statements whose text starts with prefix
				if !strings.HasSuffix(rc.Stmt, "...") || !strings.HasPrefix(txt, strings.TrimSuffix(rc.Stmt, "...")) {
					continue
				}
			}
			if rc.Nth > 0 && x.w.stmtOrdinal(fr.fn, x.w.stmtPos[pos], txt) != rc.Nth {
				continue
			}
		}
		if coverOnly && !isCallGate {
			// statement-text gates on a defer statement keep their meaning
		} else if coverOnly {
			ck := fmt.Sprintf("cover@%s@%s#%d", rc.Stmt, fr.fn.Name(), int(pos))
			if fr.reachDone == nil {
				fr.reachDone = map[string]bool{}
			}
			if !fr.reachDone[ck] && x.inDefer == 0 {
				fr.reachDone[ck] = true
				x.cover(st, "gate "+rc.Stmt, pos)
			}
			continue
		}
		key := fmt.Sprintf("%s@%s#%d", rc.Stmt, fr.fn.Name(), ins.Block().Index)
		if isCallGate {
			key = fmt.Sprintf("%s@%s#%d", rc.Stmt, fr.fn.Name(), int(pos))
			if fr.runningDefer != nil {
				key += fmt.Sprintf("/exit%d", fr.deferSite)
			}
		}
		if fr.reachDone == nil {
			fr.reachDone = map[string]bool{}
		}
		if fr.reachDone[key+rc.Clause.Text+"/"+rc.SetName] {
			continue
		}
		fr.reachDone[key+rc.Clause.Text+"/"+rc.SetName] = true
		if !fr.reachDone["cover@"+key] && x.inDefer == 0 {
			// a gate proved on an unreachable path proves nothing
			fr.reachDone["cover@"+key] = true
			x.cover(st, "gate "+rc.Stmt, pos)
		}
		env := fr.specEnv(st)
		env.vars = map[string]*Val{} // names denote current values at the statement
		env.lookup = func(s *State, name string) (*Val, bool) { return fr.lookupLocal(s, name, pos) }
		if isCallGate {
			for i, a := range callArgs {
				if deferVals != nil {
					if i < len(deferVals) {
						env.vars[fmt.Sprintf("_c%d", i)] = deferVals[i]
					}
					continue
				}
				env.vars[fmt.Sprintf("_c%d", i)] = fr.val(st, a)
			}
		}
		g, err := env.evalBool(rc.Clause.Expr)
		if err != nil {
			x.vc.diag("%s: reach %q: %v", fr.fn.String(), rc.Stmt, err)
			g = "false"
		}
		x.oblige(st, "reach", rc.Stmt+" only_if "+rc.Clause.Text, pos, g, rc.Clause.Tags, false)
		rc.Clause.Label = "bound"
		if rc.SetName != "" {
			gc := x.ghostCell(rc.SetName)
			if gc == nil {
				x.vc.diag("%s: reach %q: unknown ghost variable %s", fr.fn.String(), rc.Stmt, rc.SetName)
				continue
			}
			nv, err := env.evalVal(rc.SetExpr.Expr)
			if err != nil {
				x.vc.diag("%s: reach %q: then: %v", fr.fn.String(), rc.Stmt, err)
				nv = x.freshVal("ghostupd", gc.ty)
			}
			st.cells[gc] = env.coerce(nv, gc.ty)
		}
	}
}

// execSelect: one of the ready cases is chosen nondeterministically; values
// received are unconstrained; a send case carries the `sends` obligations.
func (fr *Frame) execSelect(st *State, in *ssa.Select) {
	x := fr.x
	idx := x.vc.fresh("selidx", sInt)
	lo := "0"
	if !in.Blocking {
		lo = "(- 1)"
	}
	x.vc.assume(tAnd(tCmp("<=", lo, idx), tCmp("<", idx, num(int64(len(in.States))))))
	tup := in.Type().(*types.Tuple)
	out := &Val{Ty: tup, L: []string{idx, x.vc.fresh("recvok", sBool)}}
	for k, s := range in.States {
		if s.Dir == types.SendOnly {
			fr.sendCheck(st, fr.val(st, s.Send), s.Pos, tEq(idx, num(int64(k))))
		}
	}
	for i := 2; i < tup.Len(); i++ {
		r := x.freshVal("recv", tup.At(i).Type())
		x.refFacts(st, r)
		out.L = append(out.L, r.L...)
	}
	fr.set(in, out)
}

type abortExec struct{ msg string }

func (fr *Frame) nilCheck(st *State, p *Val, pos token.Pos, ins ssa.Instruction) {
	if p.X != nil {
		if _, ok := p.X.(*PtrPath); ok {
			return
		}
	}
	if len(p.L) == 0 {
		return
	}
	if _, isn := isNumLit(p.L[0]); isn && p.L[0] != "0" {
		return
	}
	g := tNot(tEq(p.L[0], "0"))
	fr.x.obligeAssume(st, "nil", fr.x.w.nodeTextAt(pos), pos, g, nil, true)
}

func (fr *Frame) execAlloc(st *State, in *ssa.Alloc) {
	x := fr.x
	t := ptrElem(in.Type())
	if in.Heap && ((isStruct(t) && !fr.allocStaysLocal(in)) || (!isStruct(t) && fr.addrStored(in))) {
		r := x.allocStruct(st, t, nil)
		fr.set(in, &Val{Ty: in.Type(), L: []string{r}})
		fr.heapAllocs = append(fr.heapAllocs, in)
		return
	}
	c := x.newCell(in.Comment, t, in.Pos())
	fr.cellOf[in] = c
	fr.allocs = append(fr.allocs, in)
	st.cells[c] = zeroVal(t)
	fr.set(in, &Val{Ty: in.Type(), L: []string{x.ptrTok()}, X: &PtrPath{Base: pbCell, Cell: c, BaseTy: t, Ty: t}})
}

// addrStored: the address of the variable itself is stored into memory
// (p.f = &v): the variable has to be a heap object.
func (fr *Frame) addrStored(in *ssa.Alloc) bool {
	for _, r := range *in.Referrers() {
		if u, ok := r.(*ssa.Store); ok && u.Val == in {
			return true
		}
	}
	return false
}

// allocStaysLocal: a heap-flagged struct Alloc whose address is only used for
// field access, loads, stores and as a closure binding can stay a cell.
func (fr *Frame) allocStaysLocal(in *ssa.Alloc) bool {
	for _, r := range *in.Referrers() {
		switch u := r.(type) {
		case *ssa.FieldAddr, *ssa.DebugRef:
		case *ssa.UnOp:
		case *ssa.Store:
			if u.Val == in {
				return false
			}
		case *ssa.MakeClosure:
		default:
			return false
		}
	}
	return true
}

func (fr *Frame) execStore(st *State, in *ssa.Store) {
	x := fr.x
	addr := fr.val(st, in.Addr)
	v := fr.val(st, in.Val)
	fr.nilCheck(st, addr, in.Pos(), in)
	p := x.ptrOf(addr)
	fr.frameCheck(st, p, in.Pos())
	fr.guardCheck(st, p, in.Pos(), "write")
	if !types.Identical(under(v.Ty), under(p.Ty)) && nLeaves(v.Ty) != nLeaves(p.Ty) {
		panic(fmt.Sprintf("store type mismatch %v into %v", v.Ty, p.Ty))
	}
	x.storePath(st, p, v)
}

// entryAllocTop: the allocation counter of the state the current top-level
// execution started from (the function under verification, or an escaped
// closure verified from a state of its own).
func (fr *Frame) entryAllocTop() string {
	top := fr.x.top
	root := fr
	for root.parent != nil {
		root = root.parent
	}
	if root != top && root.entry != nil {
		return root.entry.allocTop
	}
	return top.entry.allocTop
}

// frameCheck: a function under contract may only write heap locations that
// its assigns clause names or that it allocated itself.
func (fr *Frame) frameCheck(st *State, p *PtrPath, pos token.Pos) {
	x := fr.x
	if p.Base == pbCell {
		return
	}
	top := x.top
	if top == nil || top.contract == nil || x.noObl > 0 {
		return
	}
	lo, hi, _, _ := resolvePath(p)
	for j := lo; j < hi; j++ {
		n, _ := x.leafHeapName(p, j)
		ok, rows := x.frameAllow(n)
		if !ok {
			// an escaped closure is verified from a state of its own: objects
			// it allocates itself are newer than that state's allocation counter
			goal := tCmp(">", p.Ref, fr.entryAllocTop())
			for _, r := range rows {
				goal = tOr(goal, tEq(p.Ref, r))
			}
			x.oblige(st, "frame", "write "+n, pos, goal, nil, false)
			return
		}
	}
}

// guardCheck: `guarded HEAP by e` - the function under verification (and the
// code it runs in place) touches HEAP only while e holds.
func (fr *Frame) guardCheck(st *State, p *PtrPath, pos token.Pos, what string) {
	x := fr.x
	top := x.top
	if p.Base == pbCell || top == nil || top.contract == nil || len(top.contract.Guarded) == 0 || x.noObl > 0 {
		return
	}
	lo, hi, _, _ := resolvePath(p)
	for j := lo; j < hi; j++ {
		n, _ := x.leafHeapName(p, j)
		for _, gcl := range top.contract.Guarded {
			if !heapMatches(n, gcl.Pat) {
				continue
			}
			env := top.specEnv(st)
			g, err := env.evalBool(gcl.Clause.Expr)
			if err != nil {
				x.vc.diag("%s: guarded %s: %v", fr.fn.String(), gcl.Pat, err)
				g = "false"
			}
			x.oblige(st, "guard", what+" "+n+" only while "+gcl.Clause.Text, pos, g, gcl.Clause.Tags, false)
			gcl.Clause.Label = "bound"
		}
	}
}

// frameAllow: may the function under verification write heap `name`? Either
// everywhere (ok), or only at the rows its assigns clause names (evaluated in
// the entry state), or only in objects it allocated itself.
func (x *Exec) frameAllow(name string) (bool, []string) {
	top := x.top
	var rows []string
	for _, a := range top.contract.Assigns {
		pat, ex := splitAssign(a)
		if !heapMatches(name, pat) && pat != "*" {
			continue
		}
		if ex == "" {
			return true, nil
		}
		if top.assignRows == nil {
			top.assignRows = map[string]string{}
		}
		r, done := top.assignRows[a]
		if !done {
			e, err := parseSpecExpr(ex)
			if err == nil {
				env := top.specEnv(top.entry)
				env.old = nil
				if v, verr := env.evalVal(e); verr == nil {
					r = v.L[0]
				} else {
					x.vc.diag("assigns %s: %v", a, verr)
				}
			} else {
				x.vc.diag("assigns %s: %v", a, err)
			}
			top.assignRows[a] = r
		}
		if r != "" {
			rows = append(rows, r)
		}
	}
	return false, rows
}

func (fr *Frame) execUnOp(st *State, in *ssa.UnOp) {
	x := fr.x
	v := fr.val(st, in.X)
	switch in.Op {
	case token.MUL: // load
		fr.nilCheck(st, v, in.Pos(), in)
		p := x.ptrOf(v)
		if p.Base == pbCell && p.Cell.global != nil {
			if _, ok := st.cells[p.Cell]; !ok {
				x.globalInit(st, p.Cell)
			}
		}
		fr.guardCheck(st, p, in.Pos(), "read")
		fr.set(in, x.loadPath(st, p))
	case token.NOT:
		fr.set(in, mkBool(tNot(v.T())))
	case token.SUB:
		if isFloat(in.Type()) {
			fr.set(in, x.freshVal("fneg", in.Type()))
			return
		}
		w, nw := wrapTo(in.Type(), tNeg(v.T()))
		x.oblige(st, "overflow", x.w.nodeTextAt(in.Pos()), in.Pos(), nw, nil, true)
		fr.set(in, mkInt(in.Type(), w))
	case token.XOR:
		bits, signed, _ := intInfo(in.Type())
		if signed {
			fr.set(in, mkInt(in.Type(), tSub(tNeg(v.T()), "1")))
		} else {
			fr.set(in, mkInt(in.Type(), tSub(new(big.Int).Sub(pow2(bits), one).String(), v.T())))
		}
	case token.ARROW:
		r := x.freshVal("recv", in.Type())
		fr.set(in, r)
	default:
		x.unsupported(fr, st, in, "unop "+in.Op.String())
	}
}

func (fr *Frame) execBinOp(st *State, in *ssa.BinOp) *Val {
	x := fr.x
	a := fr.val(st, in.X)
	b := fr.val(st, in.Y)
	return x.binop(st, in.Op, a, b, in.Type(), in.Pos(), true)
}

func (x *Exec) binop(st *State, op token.Token, a, b *Val, rt types.Type, pos token.Pos, obl bool) *Val {
	switch op {
	case token.EQL:
		return mkBool(x.valEq(st, a, b))
	case token.NEQ:
		return mkBool(tNot(x.valEq(st, a, b)))
	}
	ot := a.Ty
	if isUntyped(ot) {
		ot = b.Ty
	}
	if isString(ot) {
		switch op {
		case token.ADD:
			return x.strConcat(st, a, b, rt)
		case token.LSS, token.LEQ, token.GTR, token.GEQ:
			return mkBool(x.strCompare(op, a, b))
		}
	}
	if isFloat(ot) {
		switch op {
		case token.LSS, token.LEQ, token.GTR, token.GEQ:
			// floats are opaque; keep comparisons consistent via an uninterpreted order
			x.vc.declare("fltlt_", "(Array Int (Array Int Bool))")
			lt := func(p, q string) string { return tSel(tSel("fltlt_", p), q) }
			switch op {
			case token.LSS:
				return mkBool(lt(a.T(), b.T()))
			case token.GTR:
				return mkBool(lt(b.T(), a.T()))
			case token.LEQ:
				return mkBool(tNot(lt(b.T(), a.T())))
			default:
				return mkBool(tNot(lt(a.T(), b.T())))
			}
		}
		return x.freshVal("flt", rt)
	}
	at, bt := a.T(), b.T()
	switch op {
	case token.LSS:
		return mkBool(tCmp("<", at, bt))
	case token.LEQ:
		return mkBool(tCmp("<=", at, bt))
	case token.GTR:
		return mkBool(tCmp(">", at, bt))
	case token.GEQ:
		return mkBool(tCmp(">=", at, bt))
	case token.ADD, token.SUB, token.MUL:
		var m string
		switch op {
		case token.ADD:
			m = tAdd(at, bt)
		case token.SUB:
			m = tSub(at, bt)
		default:
			m = tMul(at, bt)
		}
		w, nw := wrapTo(rt, m)
		if obl && nw != "true" {
			x.oblige(st, "overflow", x.w.nodeTextAt(pos), pos, nw, nil, true)
		}
		if len(w) > 200 {
			w = x.vc.def("arith", sInt, w)
		}
		return mkInt(rt, w)
	case token.QUO, token.REM:
		if obl {
			x.obligeAssume(st, "div0", x.w.nodeTextAt(pos), pos, tNot(tEq(bt, "0")), nil, true)
		}
		_, signed, _ := intInfo(rt)
		var t string
		if signed {
			if op == token.QUO {
				t = "(gdiv " + at + " " + bt + ")"
			} else {
				t = "(gmod " + at + " " + bt + ")"
			}
			if bn, ok := isNumLit(bt); ok && bn.Sign() > 0 {
				// common case: nonnegative dividend is plain div/mod
				if op == token.QUO {
					t = tIte(tCmp(">=", at, "0"), "(div "+at+" "+bt+")", "(- (div (- "+at+") "+bt+"))")
				} else {
					t = tIte(tCmp(">=", at, "0"), "(mod "+at+" "+bt+")", "(- (mod (- "+at+") "+bt+"))")
				}
			}
		} else {
			if op == token.QUO {
				t = "(div " + at + " " + bt + ")"
			} else {
				t = "(mod " + at + " " + bt + ")"
			}
		}
		if an, ok := isNumLit(at); ok {
			if bn, ok := isNumLit(bt); ok && bn.Sign() != 0 {
				q, r := new(big.Int).QuoRem(an, bn, new(big.Int))
				if op == token.QUO {
					t = bignum(q)
				} else {
					t = bignum(r)
				}
			}
		}
		return mkInt(rt, t)
	case token.SHL, token.SHR, token.AND, token.OR, token.XOR, token.AND_NOT:
		return x.bitop(st, op, a, b, rt)
	}
	panic("binop " + op.String())
}

func (x *Exec) bitop(st *State, op token.Token, a, b *Val, rt types.Type) *Val {
	at, bt := a.T(), b.T()
	bits, signed, _ := intInfo(rt)
	an, aok := isNumLit(at)
	bn, bok := isNumLit(bt)
	if aok && bok && bits > 0 {
		m := pow2(bits)
		ua := new(big.Int).Mod(an, m)
		ub := new(big.Int).Mod(bn, m)
		var r *big.Int
		switch op {
		case token.AND:
			r = new(big.Int).And(ua, ub)
		case token.OR:
			r = new(big.Int).Or(ua, ub)
		case token.XOR:
			r = new(big.Int).Xor(ua, ub)
		case token.AND_NOT:
			r = new(big.Int).AndNot(ua, ub)
		case token.SHL:
			if bn.IsInt64() && bn.Int64() < 4096 {
				r = new(big.Int).Mod(new(big.Int).Lsh(ua, uint(bn.Int64())), m)
			}
		case token.SHR:
			if bn.IsInt64() && bn.Int64() < 4096 {
				if signed {
					r = new(big.Int).Rsh(an, uint(bn.Int64()))
					return mkInt(rt, bignum(r))
				}
				r = new(big.Int).Rsh(ua, uint(bn.Int64()))
			}
		}
		if r != nil {
			if signed && r.Cmp(pow2(bits-1)) >= 0 {
				r.Sub(r, m)
			}
			return mkInt(rt, bignum(r))
		}
	}
	switch op {
	case token.SHL:
		if bok && bn.IsInt64() && bn.Int64() < 64 {
			w, _ := wrapTo(rt, tMul(at, pow2(uint(bn.Int64())).String()))
			return mkInt(rt, w)
		}
	case token.SHR:
		if bok && bn.IsInt64() && bn.Int64() < 64 {
			return mkInt(rt, "(div "+at+" "+pow2(uint(bn.Int64())).String()+")")
		}
	case token.AND:
		// x & (2^k-1)
		for _, pr := range [][2]string{{at, bt}, {bt, at}} {
			if mn, ok := isNumLit(pr[1]); ok && mn.Sign() >= 0 {
				k := new(big.Int).Add(mn, one)
				if k.BitLen() > 0 && new(big.Int).And(k, mn).Sign() == 0 { // k power of two
					if !signed {
						return mkInt(rt, "(mod "+pr[0]+" "+k.String()+")")
					}
					return mkInt(rt, "(mod "+pr[0]+" "+k.String()+")") // two's complement: low bits = mod
				}
			}
		}
		// x & c for a constant with few set bits: sum of the selected bits
		for _, pr := range [][2]string{{at, bt}, {bt, at}} {
			if mn, ok := isNumLit(pr[1]); ok && mn.Sign() > 0 && mn.BitLen() <= 63 {
				nbits := 0
				for k := 0; k < mn.BitLen(); k++ {
					if mn.Bit(k) == 1 {
						nbits++
					}
				}
				if nbits <= 8 {
					t := "0"
					for k := 0; k < mn.BitLen(); k++ {
						if mn.Bit(k) == 1 {
							p := pow2(uint(k)).String()
							t = tAdd(t, tMul("(mod (div "+pr[0]+" "+p+") 2)", p))
						}
					}
					return mkInt(rt, t)
				}
			}
		}
	case token.OR:
		if bok && bn.Sign() == 0 {
			return a
		}
		if aok && an.Sign() == 0 {
			return b
		}
		// x | c = x + c - (x & c) for a constant with few set bits
		for _, pr := range [][2]*Val{{a, b}, {b, a}} {
			if mn, ok := isNumLit(pr[1].T()); ok && mn.Sign() > 0 && mn.BitLen() <= 62 {
				nb := 0
				for k := 0; k < mn.BitLen(); k++ {
					if mn.Bit(k) == 1 {
						nb++
					}
				}
				if nb <= 8 {
					and := x.bitop(st, token.AND, pr[0], pr[1], rt)
					return mkInt(rt, tSub(tAdd(pr[0].T(), pr[1].T()), and.T()))
				}
			}
		}
		if aok && an.Sign() == 0 {
			return b
		}
	}
	r := x.vc.fresh("bits", sInt)
	v := mkInt(rt, r)
	x.typeFacts(v)
	var fn string
	switch op {
	case token.AND:
		fn = "bvand_"
	case token.OR:
		fn = "bvor_"
	case token.XOR:
		fn = "bvxor_"
	case token.AND_NOT:
		x.vc.assume(tEq(r, "(bvand_ "+at+" (bvxor_ "+bt+" (- 1)))"))
		if !signed {
			x.vc.assume(tCmp("<=", r, at))
		}
		return v
	case token.SHL:
		x.vc.assume(tEq(r, fmt.Sprintf("(bvshl_ %s %s %d)", at, bt, bits)))
		return v
	case token.SHR:
		x.vc.assume(tEq(r, "(bvshr_ "+at+" "+bt+")"))
		if !signed {
			x.vc.assume(tCmp("<=", r, at))
		}
		return v
	}
	x.vc.assume(tEq(r, "("+fn+" "+at+" "+bt+")"))
	nonneg := tAnd(tCmp(">=", at, "0"), tCmp(">=", bt, "0"))
	switch op {
	case token.AND:
		x.vc.assume(tImp(nonneg, tAnd(tCmp("<=", r, at), tCmp("<=", r, bt), tCmp(">=", r, "0"))))
	case token.OR:
		x.vc.assume(tImp(nonneg, tAnd(tCmp(">=", r, at), tCmp(">=", r, bt), tCmp("<=", r, tAdd(at, bt)))))
	case token.XOR:
		x.vc.assume(tImp(nonneg, tAnd(tCmp(">=", r, "0"), tCmp("<=", r, tAdd(at, bt)))))
		x.vc.assume(tImp(tEq(at, bt), tEq(r, "0")))
	}
	return v
}

// strCompare: lexicographic order on strings, modelled as an uninterpreted
// strict total order strlt_ on content codes (see strEq) with the empty string
// least. Sound for the same reason as strEq: the real order is one such order.
func (x *Exec) strCompare(op token.Token, a, b *Val) string {
	x.declareFun("strlt_", "(Int Int) Bool")
	if !x.vc.declared["strlt_trans"] {
		x.vc.declared["strlt_trans"] = true
		x.vc.lines = append(x.vc.lines, "(assert (forall ((x!a Int) (y!a Int) (z!a Int)) (! (=> (and (strlt_ x!a y!a) (strlt_ y!a z!a)) (strlt_ x!a z!a)) :pattern ((strlt_ x!a y!a) (strlt_ y!a z!a)))))")
	}
	ia, ib := x.strID(a), x.strID(b)
	lt := func(p, q string) string { return "(strlt_ " + p + " " + q + ")" }
	x.vc.assume(tAnd(
		tNot(tAnd(lt(ia, ib), lt(ib, ia))),
		tOr(lt(ia, ib), lt(ib, ia), tEq(ia, ib)),
		tImp(tEq(ia, ib), tAnd(tNot(lt(ia, ib)), tNot(lt(ib, ia)))),
		tImp(tAnd(tEq(a.L[2], "0"), tEq(b.L[2], "0")), tEq(ia, ib)),
		tImp(tAnd(tEq(a.L[2], "0"), tCmp(">", b.L[2], "0")), lt(ia, ib)),
		tImp(tAnd(tEq(b.L[2], "0"), tCmp(">", a.L[2], "0")), lt(ib, ia)),
		tImp(tEq(ia, ib), tEq(a.L[2], b.L[2]))))
	switch op {
	case token.LSS:
		return lt(ia, ib)
	case token.GTR:
		return lt(ib, ia)
	case token.LEQ:
		return tNot(lt(ib, ia))
	default:
		return tNot(lt(ia, ib))
	}
}

// copyInto returns an array equal to D except that D'[dlo+k] = S[slo+k] for
// 0 <= k < n.
func (x *Exec) copyInto(sort string, D, dlo, S, slo, n string) string {
	if nn, ok := isNumLit(n); ok && nn.IsInt64() && nn.Int64() <= 64 {
		t := D
		for k := int64(0); k < nn.Int64(); k++ {
			t = tSto(t, tAdd(dlo, num(k)), tSel(S, tAdd(slo, num(k))))
		}
		return x.vc.def("cpy", sort, t)
	}
	c := x.vc.fresh("cpy", sort)
	x.vc.nfresh++
	j := fmt.Sprintf("j!%d", x.vc.nfresh)
	x.vc.assume("(forall ((" + j + " Int)) (! (= (select " + c + " " + j + ") (ite (and (<= " + dlo + " " + j + ") (< " + j + " " + tAdd(dlo, n) + ")) " +
		tSel(S, tAdd(slo, tSub(j, dlo))) + " " + tSel(D, j) + ")) :pattern ((select " + c + " " + j + "))))")
	return c
}

func (x *Exec) strConcat(st *State, a, b *Val, rt types.Type) *Val {
	if la, lb := litOf(a), litOf(b); la != nil && lb != nil {
		v := x.strLit(la.s + lb.s)
		return &Val{Ty: rt, L: v.L, X: v.X}
	}
	if a.L[2] == "0" {
		return &Val{Ty: rt, L: b.L, X: b.X}
	}
	if b.L[2] == "0" {
		return &Val{Ty: rt, L: a.L, X: a.X}
	}
	// keep a's array and offset when possible: result = a's array with b copied after it
	c := x.copyInto(sArrI, a.L[0], tAdd(a.L[1], a.L[2]), b.L[0], b.L[1], b.L[2])
	return &Val{Ty: rt, L: []string{c, a.L[1], x.vc.def("slen", sInt, tAdd(a.L[2], b.L[2]))}}
}

func (fr *Frame) execIndexAddr(st *State, in *ssa.IndexAddr) {
	x := fr.x
	base := fr.val(st, in.X)
	idx := fr.val(st, in.Index).T()
	switch under(in.X.Type()).(type) {
	case *types.Slice:
		g := tAnd(tCmp("<=", "0", idx), tCmp("<", idx, base.L[2]))
		x.obligeAssume(st, "bounds", x.w.nodeTextAt(in.Pos()), in.Pos(), g, nil, true)
		p := x.elemPath(base, idx)
		if l, ok := base.X.(*ArrLink); ok {
			p.Link = l
		}
		fr.set(in, &Val{Ty: in.Type(), L: []string{x.ptrTok()}, X: p})
	case *types.Pointer: // pointer to array
		at := under(ptrElem(in.X.Type())).(*types.Array)
		g := tAnd(tCmp("<=", "0", idx), tCmp("<", idx, num(at.Len())))
		x.obligeAssume(st, "bounds", x.w.nodeTextAt(in.Pos()), in.Pos(), g, nil, true)
		fr.nilCheck(st, base, in.Pos(), in)
		p := x.ptrOf(base)
		fr.set(in, &Val{Ty: in.Type(), L: []string{x.ptrTok()}, X: p.extend(psel{isIdx: true, idx: idx}, at.Elem())})
	default:
		panic("IndexAddr on " + in.X.Type().String())
	}
}

func (fr *Frame) execIndex(st *State, in *ssa.Index) {
	x := fr.x
	base := fr.val(st, in.X)
	idx := fr.val(st, in.Index).T()
	switch u := under(in.X.Type()).(type) {
	case *types.Basic: // string
		g := tAnd(tCmp("<=", "0", idx), tCmp("<", idx, base.L[2]))
		x.obligeAssume(st, "bounds", x.w.nodeTextAt(in.Pos()), in.Pos(), g, nil, true)
		t := tSel(base.L[0], tAdd(base.L[1], idx))
		x.vc.assume(inRange(types.Typ[types.Uint8], t))
		fr.set(in, mkInt(in.Type(), t))
	case *types.Array:
		g := tAnd(tCmp("<=", "0", idx), tCmp("<", idx, num(u.Len())))
		x.obligeAssume(st, "bounds", x.w.nodeTextAt(in.Pos()), in.Pos(), g, nil, true)
		v := base.arrIndex(idx)
		x.typeFacts(v)
		fr.set(in, v)
	default:
		panic("Index on " + in.X.Type().String())
	}
}

func (fr *Frame) execSlice(st *State, in *ssa.Slice) {
	x := fr.x
	base := fr.val(st, in.X)
	opt := func(v ssa.Value) string {
		if v == nil {
			return ""
		}
		return fr.val(st, v).T()
	}
	lo, hi, mx := opt(in.Low), opt(in.High), opt(in.Max)
	if lo == "" {
		lo = "0"
	}
	txt := x.w.nodeTextAt(in.Pos())
	switch u := under(in.X.Type()).(type) {
	case *types.Basic: // string
		if hi == "" {
			hi = base.L[2]
		}
		g := tAnd(tCmp("<=", "0", lo), tCmp("<=", lo, hi), tCmp("<=", hi, base.L[2]))
		x.obligeAssume(st, "bounds", txt, in.Pos(), g, nil, true)
		fr.set(in, &Val{Ty: in.Type(), L: []string{base.L[0], x.vc.def("soff", sInt, tAdd(base.L[1], lo)), x.vc.def("slen", sInt, tSub(hi, lo))}})
	case *types.Slice:
		if hi == "" {
			hi = base.L[2]
		}
		cp := base.L[3]
		var g string
		if mx == "" {
			g = tAnd(tCmp("<=", "0", lo), tCmp("<=", lo, hi), tCmp("<=", hi, cp))
			mx = cp
		} else {
			g = tAnd(tCmp("<=", "0", lo), tCmp("<=", lo, hi), tCmp("<=", hi, mx), tCmp("<=", mx, cp))
		}
		x.obligeAssume(st, "bounds", txt, in.Pos(), g, nil, true)
		fr.set(in, &Val{Ty: in.Type(), L: []string{base.L[0], x.vc.def("off", sInt, tAdd(base.L[1], lo)), x.vc.def("len", sInt, tSub(hi, lo)), x.vc.def("cap", sInt, tSub(mx, lo))}, X: base.X})
	case *types.Pointer: // pointer to array
		at := under(u.Elem()).(*types.Array)
		n := num(at.Len())
		if hi == "" {
			hi = n
		}
		if mx == "" {
			mx = n
		}
		g := tAnd(tCmp("<=", "0", lo), tCmp("<=", lo, hi), tCmp("<=", hi, mx), tCmp("<=", mx, n))
		x.obligeAssume(st, "bounds", txt, in.Pos(), g, nil, true)
		p := x.ptrOf(base)
		// snapshot the array into a fresh backing store and link it
		arr := x.loadPath(st, p)
		et := at.Elem()
		r := x.newRef(st)
		ss := leafSorts(et)
		ln := leafNames(et)
		for j, s := range ss {
			hn := "A_" + typeKey(et) + "_" + ln[j]
			hs := arrSort(arrSort(s))
			st.heaps[hn] = x.vc.def(hn, hs, tSto(x.heap(st, hn, hs), r, arr.L[j]))
		}
		fr.set(in, &Val{Ty: in.Type(), L: []string{r, lo, x.vc.def("len", sInt, tSub(hi, lo)), x.vc.def("cap", sInt, tSub(mx, lo))}, X: &ArrLink{path: p, ref: r, elem: et}})
	default:
		panic("Slice on " + in.X.Type().String())
	}
}

// writeBack copies a linked backing array back into the array it aliases.
func (x *Exec) writeBack(st *State, v *Val) {
	l, ok := v.X.(*ArrLink)
	if !ok {
		return
	}
	x.writeBackLink(st, l)
}

func (x *Exec) writeBackLink(st *State, l *ArrLink) {
	ss := leafSorts(l.elem)
	ln := leafNames(l.elem)
	at := l.path.Ty
	out := &Val{Ty: at, L: make([]string, len(ss))}
	for j, s := range ss {
		hn := "A_" + typeKey(l.elem) + "_" + ln[j]
		out.L[j] = tSel(x.heap(st, hn, arrSort(arrSort(s))), l.ref)
	}
	x.storePath(st, l.path, out)
}

func (fr *Frame) execConvert(st *State, in *ssa.Convert) {
	x := fr.x
	v := fr.val(st, in.X)
	from, to := in.X.Type(), in.Type()
	switch {
	case isInteger(from) && isInteger(to):
		w, nw := wrapTo(to, v.T())
		if nw != "true" {
			x.oblige(st, "conv", x.w.nodeTextAt(in.Pos()), in.Pos(), nw, nil, false)
		}
		fr.set(in, mkInt(to, w))
	case isString(to) && isSlice(from):
		s := x.seqOf(st, v)
		fr.set(in, &Val{Ty: to, L: []string{s[0], s[1], s[2]}})
	case isSlice(to) && isString(from):
		et := sliceElem(to)
		if b, ok := under(et).(*types.Basic); !ok || b.Kind() != types.Uint8 {
			fr.set(in, x.freshVal("conv", to))
			return
		}
		r := x.newRef(st)
		hn := "A_" + typeKey(et) + "_"
		hs := arrSort(sArrI)
		st.heaps[hn] = x.vc.def(hn, hs, tSto(x.heap(st, hn, hs), r, v.L[0]))
		fr.set(in, &Val{Ty: to, L: []string{r, v.L[1], v.L[2], v.L[2]}})
	case isString(to) && isInteger(from):
		// string(rune)
		arr := x.vc.fresh("runestr", sArrI)
		ln := x.vc.fresh("runelen", sInt)
		x.vc.assume(tAnd(tCmp("<=", "1", ln), tCmp("<=", ln, "4")))
		ascii := tAnd(tCmp("<=", "0", v.T()), tCmp("<", v.T(), "128"))
		x.vc.assume(tImp(ascii, tAnd(tEq(ln, "1"), tEq(tSel(arr, "0"), v.T()))))
		x.vc.assume(tImp(tNot(ascii), tCmp(">=", tSel(arr, "0"), "128")))
		fr.set(in, &Val{Ty: to, L: []string{arr, "0", ln}})
	case isFloat(from) || isFloat(to):
		fr.set(in, x.freshVal("fconv", to))
	case isPointer(to) || isPointer(from):
		fr.set(in, x.freshVal("pconv", to))
	default:
		if nLeaves(from) == nLeaves(to) {
			fr.set(in, &Val{Ty: to, L: v.L, X: v.X})
			return
		}
		fr.set(in, x.freshVal("conv", to))
	}
}

// ---------------------------------------------------------------------
// interfaces

func (x *Exec) typeCode(t types.Type) int64 {
	k := types.TypeString(t, nil)
	if c, ok := x.w.typeCodes[k]; ok {
		return c
	}
	c := int64(len(x.w.typeCodes) + 1)
	x.w.typeCodes[k] = c
	return c
}

func (x *Exec) makeIface(st *State, v *Val, it types.Type) *Val {
	if isIface(v.Ty) {
		return &Val{Ty: it, L: v.L, X: v.X}
	}
	code := x.typeCode(v.Ty)
	var h string
	if len(v.L) == 1 && leafSorts(v.Ty)[0] == sInt {
		h = "(box_ " + num(code) + " " + v.L[0] + ")"
		key := h
		if !x.boxes[key] {
			x.boxes[key] = true
			x.vc.assume(tAnd(tCmp(">", h, "0"), tEq("(typeof_ "+h+")", num(code))))
			un := fmt.Sprintf("unbox_%d", code)
			x.declareFun(un, "(Int) Int")
			x.vc.assume(tEq("("+un+" "+h+")", v.L[0]))
		}
	} else {
		h = x.vc.fresh("iface", sInt)
		x.vc.assume(tAnd(tCmp(">", h, "0"), tEq("(typeof_ "+h+")", num(code))))
		ss := leafSorts(v.Ty)
		for j, s := range ss {
			un := fmt.Sprintf("unbox_%d_%d", code, j)
			x.declareFun(un, "(Int) "+s)
			x.vc.assume(tEq("("+un+" "+h+")", v.L[j]))
		}
	}
	return &Val{Ty: it, L: []string{h}, X: &boxed{v}}
}

type boxed struct{ v *Val }

func (x *Exec) declareFun(name, sig string) {
	if !x.vc.declared[name] {
		x.vc.declared[name] = true
		x.vc.lines = append(x.vc.lines, "(declare-fun "+name+" "+sig+")")
	}
}

func (x *Exec) unbox(h string, t types.Type) *Val {
	code := x.typeCode(t)
	ss := leafSorts(t)
	out := &Val{Ty: t, L: make([]string, len(ss))}
	if len(ss) == 1 && ss[0] == sInt {
		un := fmt.Sprintf("unbox_%d", code)
		x.declareFun(un, "(Int) Int")
		out.L[0] = "(" + un + " " + h + ")"
	} else {
		for j, s := range ss {
			un := fmt.Sprintf("unbox_%d_%d", code, j)
			x.declareFun(un, "(Int) "+s)
			out.L[j] = "(" + un + " " + h + ")"
		}
	}
	x.typeFacts(out)
	return out
}

func (fr *Frame) execTypeAssert(st *State, in *ssa.TypeAssert) {
	x := fr.x
	v := fr.val(st, in.X)
	h := v.L[0]
	at := in.AssertedType
	var ok string
	var res *Val
	if isIface(at) {
		// interface-to-interface: succeeds iff dynamic type implements; opaque
		okc := x.vc.fresh("implements", sBool)
		x.vc.assume(tImp(tEq(h, "0"), tNot(okc)))
		ok = okc
		res = &Val{Ty: at, L: []string{h}, X: v.X}
	} else {
		ok = tAnd(tNot(tEq(h, "0")), tEq("(typeof_ "+h+")", num(x.typeCode(at))))
		if b, isb := v.X.(*boxed); isb && types.Identical(b.v.Ty, at) {
			res = b.v
		} else {
			res = x.unbox(h, at)
		}
	}
	if in.CommaOk {
		z := zeroVal(at)
		r := iteVal(ok, res, z)
		out := &Val{Ty: in.Type(), L: append(append([]string(nil), r.L...), ok)}
		fr.set(in, out)
		return
	}
	x.obligeAssume(st, "typeassert", x.w.nodeTextAt(in.Pos()), in.Pos(), ok, nil, true)
	fr.set(in, res)
}
