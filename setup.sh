#!/bin/bash
# builds the verifier offline from files on disk
set -e
cd "$(dirname "$0")"
. ./env.sh
mkdir -p bin evidence
(cd govc && go build -o ../bin/govc.tmp.$$ . && mv -f ../bin/govc.tmp.$$ ../bin/govc)
echo "govc built: $(ls -la bin/govc | awk '{print $5}') bytes"
