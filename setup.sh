#!/bin/bash
# builds the verifier offline from files on disk
set -e
cd "$(dirname "$0")"
. ./env.sh
mkdir -p bin evidence
echo "govc built: $(ls -la bin/govc | awk '{print $5}') bytes"
