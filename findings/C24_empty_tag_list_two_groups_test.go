package data

import "testing"

// Two snapshots with the same (empty) tag set must land in the same group when
// grouping by tags - whether the list is nil (no "tags" field in the snapshot
// file) or empty (an explicit "tags":[]).
func TestFindingC24EmptyTagListOneGroup(t *testing.T) {
	a := &Snapshot{Hostname: "h", Paths: []string{"/a"}}
	b := &Snapshot{Hostname: "h", Paths: []string{"/a"}, Tags: []string{}}
	groups, _, err := GroupSnapshots(Snapshots{a, b}, SnapshotGroupByOptions{Tag: true})
	if err != nil {
		t.Fatal(err)
	}
	if len(groups) != 1 {
		t.Fatalf("want 1 group for two snapshots without tags, got %d: %v", len(groups), groups)
	}
}
