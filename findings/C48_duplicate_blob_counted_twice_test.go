package index

// Replay for the C48 finding: a blob that is stored in two packs (two index
// entries for the same handle - legal, prune calls them duplicates) is reported
// twice by AssociatedSet.All / Keys, and Len counts it twice.

import (
	"testing"

	"github.com/restic/restic/internal/repository/pack"
	"github.com/restic/restic/internal/restic"
)

func TestFindingC48DuplicateBlobEnumeratedTwice(t *testing.T) {
	bh := restic.NewRandomBlobHandle()
	blob := pack.Blob{BlobHandle: bh, Length: 100, Offset: 0}

	idx := NewIndex()
	idx.StorePack(restic.NewRandomID(), pack.Blobs{blob})
	idx.StorePack(restic.NewRandomID(), pack.Blobs{blob})
	idx.Finalize()
	// an index loaded from the repository carries the ID of its file; only
	// those are merged into the main index whose positions the set relies on
	if err := idx.SetID(restic.NewRandomID()); err != nil {
		t.Fatal(err)
	}

	mi := NewMasterIndex()
	mi.Insert(idx)
	if err := mi.MergeFinalIndexes(); err != nil {
		t.Fatal(err)
	}

	set := NewAssociatedSet[uint8](mi)
	set.Insert(bh)

	if !set.Has(bh) {
		t.Fatal("member not found")
	}
	n := 0
	for k := range set.Keys() {
		if k == bh {
			n++
		}
	}
	if n != 1 {
		t.Errorf("member enumerated %d times, want once", n)
	}
	if l := set.Len(); l != 1 {
		t.Errorf("Len() = %d for a set with one member", l)
	}
}
