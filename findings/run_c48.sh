#!/bin/bash
# Replays the C48 finding against the real code in /repo (overlay test, nothing is
# written to /repo). FAIL = the defect is present (it was, before fix: 4a2541c0a).
cd "$(dirname "$0")/.."; . ./env.sh
ov=$(mktemp /tmp/findings-ov-XXXX.json)
cat > $ov <<J
{"Replace": {"/repo/internal/repository/index/zz_finding_c48_test.go": "/verif/findings/C48_duplicate_blob_counted_twice_test.go"}}
J
cd /repo && go test -overlay $ov -vet=off -timeout 120s -count=1 -run 'TestFindingC48' ./internal/repository/index/ 2>&1 | tail -8
rc=${PIPESTATUS[0]}
rm -f $ov
exit $rc
