//go:build !windows

package restorer

// Replay for the second C18 finding: the target directory already contains a
// symlink (pointing outside) where the first name of a hard link group goes, and
// restore runs with --overwrite never. The existing entry is kept, the second name
// is hard-linked to it (a hard link to the symlink) and then gets the file node's
// metadata: chmod follows the link and changes a file outside the target.

import (
	"context"
	"os"
	"path/filepath"
	"testing"
	"time"

	"github.com/restic/restic/internal/data"
	"github.com/restic/restic/internal/repository"
	"github.com/restic/restic/internal/restic"
	rtest "github.com/restic/restic/internal/test"
)

func TestFindingC18HardlinkThroughPreexistingSymlink(t *testing.T) {
	repo := repository.TestRepository(t)
	base := rtest.TempDir(t)
	target := filepath.Join(base, "target")
	outside := filepath.Join(base, "outside")
	rtest.OK(t, os.Mkdir(outside, 0o700))
	rtest.OK(t, os.Mkdir(target, 0o700))
	victim := filepath.Join(outside, "victim")
	rtest.OK(t, os.WriteFile(victim, []byte("not part of the restore"), 0o600))
	// adversarial pre-existing target content: a symlink where the first name of a hard link group goes
	rtest.OK(t, os.Symlink(victim, filepath.Join(target, "a")))

	ctx := t.Context()
	now := time.Now()
	uid, gid := uint32(os.Getuid()), uint32(os.Getgid())
	var treeID restic.ID
	rtest.OK(t, repo.WithBlobUploader(ctx, func(ctx context.Context, uploader restic.BlobSaverWithAsync) error {
		content := []byte("hello")
		blobID, _, _, err := uploader.SaveBlob(ctx, restic.DataBlob, content, restic.ID{}, false)
		rtest.OK(t, err)
		tw := data.NewTreeWriter(uploader)
		for _, name := range []string{"a", "b"} {
			rtest.OK(t, tw.AddNode(&data.Node{Name: name, Type: data.NodeTypeFile, Mode: 0o666, Size: uint64(len(content)),
				Content: restic.IDs{blobID}, ModTime: now, AccessTime: now, UID: uid, GID: gid, Links: 2, Inode: 4711, DeviceID: 1}))
		}
		treeID, err = tw.Finalize(ctx)
		return err
	}))
	sn, err := data.NewSnapshot([]string{"test"}, nil, "", now)
	rtest.OK(t, err)
	sn.Tree = &treeID
	_, err = data.SaveSnapshot(ctx, repo, sn)
	rtest.OK(t, err)

	res := NewRestorer(repo, sn, Options{Overwrite: OverwriteNever})
	_, err = res.RestoreTo(ctx, target)
	t.Logf("RestoreTo returned %v", err)
	fi, err := os.Stat(victim)
	rtest.OK(t, err)
	t.Logf("victim mode %v", fi.Mode().Perm())
	li, _ := os.Lstat(filepath.Join(target, "b"))
	if li != nil {
		t.Logf("b mode %v", li.Mode())
	}
	if fi.Mode().Perm() != 0o600 {
		t.Errorf("restore changed the mode of a file outside the target directory: %v", fi.Mode().Perm())
	}
}
