#!/bin/bash
# Replays the C09 finding against the real code in /repo (overlay test, nothing is
# written to /repo). FAIL = the defect is present (it was, before fix: 812979321).
cd "$(dirname "$0")/.."; . ./env.sh
ov=$(mktemp /tmp/findings-ov-XXXX.json)
cat > $ov <<J
{"Replace": {"/repo/internal/repository/zz_finding_c09_test.go": "/verif/findings/C09_used_blob_copy_in_missing_pack_test.go"}}
J
cd /repo && go test -overlay $ov -vet=off -timeout 120s -count=1 -run 'TestFindingC09' ./internal/repository/ 2>&1 | tail -8
rc=${PIPESTATUS[0]}
rm -f $ov
exit $rc
