package repository

// Demonstration of the open finding recorded for C31 (not part of restic; injected
// with `go test -overlay`, see /verif/findings/run.sh). On a backend without atomic
// replace, upgradeRepository removes the config and then saves the new one; if every
// config Save fails after the removal (backend trouble that persists through the
// contingency re-upload), UpgradeRepo returns an error and the repository is left
// WITHOUT any config file: it can no longer be opened with either the old or the new
// config, which is what C31 promises for every failure position.

import (
	"context"
	"errors"
	"testing"

	"github.com/restic/restic/internal/backend"
)

type c31NonAtomicFailingBackend struct {
	backend.Backend
	failConfigSaves bool
}

func (be *c31NonAtomicFailingBackend) Properties() backend.Properties {
	p := be.Backend.Properties()
	p.HasAtomicReplace = false
	return p
}

func (be *c31NonAtomicFailingBackend) Save(ctx context.Context, h backend.Handle, rd backend.RewindReader) error {
	if h.Type == backend.ConfigFile && be.failConfigSaves {
		return errors.New("injected: config save fails")
	}
	return be.Backend.Save(ctx, h, rd)
}

func TestFindingC31ConfigLostOnNonAtomicBackend(t *testing.T) {
	be := &c31NonAtomicFailingBackend{Backend: TestBackend(t)}
	repo, _ := TestRepositoryWithBackend(t, be, 1, Options{})
	if repo.Config().Version != 1 {
		t.Fatal("test repo has wrong version")
	}
	be.failConfigSaves = true
	err := UpgradeRepo(context.Background(), repo)
	if err == nil {
		t.Fatal("upgrade unexpectedly succeeded")
	}
	_, statErr := be.Stat(context.Background(), backend.Handle{Type: backend.ConfigFile})
	if statErr != nil {
		t.Fatalf("FINDING C31: after a failed upgrade the repository has no config file at all (neither old nor new): %v", statErr)
	}
}
