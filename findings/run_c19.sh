#!/bin/bash
# Replays the C19 finding as uid nobody (root can read mode-000 files). FAIL = the defect is present.
cd "$(dirname "$0")/.."; . ./env.sh
work=$(mktemp -d /tmp/findings-c19-XXXX); chmod 0777 $work
ov=$work/ov.json
cat > $ov <<J
{"Replace": {"/repo/internal/restorer/zz_finding_c19_test.go": "/verif/findings/C19_sparse_over_unreadable_test.go"}}
J
(cd /repo && go test -overlay $ov -vet=off -c -o $work/restorer.test ./internal/restorer/) || { echo "build failed"; rm -rf $work; exit 2; }
chmod 0755 $work/restorer.test
(cd $work && TMPDIR=$work HOME=$work setpriv --reuid=65534 --regid=65534 --clear-groups ./restorer.test -test.run TestFindingC19 -test.count=1 2>&1 | tail -6)
rc=$?
rm -rf $work
exit $rc
