#!/bin/bash
# Replays the C18 finding against the real code in /repo (overlay test, nothing is
# written to /repo). FAIL = the defect is present (they were, before fix: 5fc56db2f and the chmod fix).
cd "$(dirname "$0")/.."; . ./env.sh
ov=$(mktemp /tmp/findings-ov-XXXX.json)
cat > $ov <<J
{"Replace": {"/repo/internal/restorer/zz_finding_c18_test.go": "/verif/findings/C18_chmod_through_duplicate_symlink_test.go", "/repo/internal/restorer/zz_finding_c18b_test.go": "/verif/findings/C18_chmod_through_preexisting_symlink_test.go"}}
J
cd /repo && go test -overlay $ov -vet=off -timeout 120s -count=1 -run 'TestFindingC18' ./internal/restorer/ 2>&1 | tail -8
rc=${PIPESTATUS[0]}
rm -f $ov
exit $rc
