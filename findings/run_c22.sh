#!/bin/bash
# Replays the C22 finding against the real code in /repo (overlay test, nothing is
# written to /repo). FAIL = the defect is present (it was, before fix: 858518ec1).
cd "$(dirname "$0")/.."; . ./env.sh
ov=$(mktemp /tmp/findings-ov-XXXX.json)
cat > $ov <<J
{"Replace": {"/repo/internal/data/zz_finding_c22_test.go": "/verif/findings/C22_within_hours_overflow_test.go"}}
J
cd /repo && go test -overlay $ov -vet=off -timeout 120s -count=1 -run 'TestFindingC22' ./internal/data/ 2>&1 | tail -8
rc=${PIPESTATUS[0]}
rm -f $ov
exit $rc
