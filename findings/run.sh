#!/bin/bash
# findings/run.sh: replays the recorded open findings against the real code in /repo
# (overlay test, nothing is written to /repo). A finding "reproduces" when its test FAILS.
cd "$(dirname "$0")/.."; . ./env.sh
ov=$(mktemp /tmp/findings-ov-XXXX.json)
cat > $ov <<J
{"Replace": {"/repo/internal/repository/zz_finding_c31_test.go": "/verif/findings/C31_upgrade_nonatomic_test.go"}}
J
cd /repo && go test -overlay $ov -vet=off -timeout 120s -count=1 -run 'TestFindingC31' ./internal/repository/ 2>&1 | tail -8
rm -f $ov
