package repository_test

import (
	"context"
	"math"
	"math/rand"
	"testing"

	"github.com/restic/restic/internal/backend"
	"github.com/restic/restic/internal/repository"
	"github.com/restic/restic/internal/restic"
	rtest "github.com/restic/restic/internal/test"
)

// A used blob x is stored twice: in pack R (together with an unused blob, so a
// full prune repacks R) and in pack M (together with an unused blob). M is then
// lost from the backend but still listed in the index: prune calls it "missing
// but unneeded" and promises to repair the index. After the prune, x must still
// be readable - its only live copy was the one in R.
func TestFindingC09UsedBlobWithCopyInMissingPackSurvivesPrune(t *testing.T) {
	ctx := context.TODO()
	random := rand.New(rand.NewSource(42))
	repo, _, be := repository.TestRepositoryWithVersion(t, 0)

	mk := func() []byte {
		buf := make([]byte, 3000+random.Intn(2000))
		random.Read(buf)
		return buf
	}
	x, k, u1, u2 := mk(), mk(), mk(), mk()
	var xh restic.BlobHandle

	savePack := func(bufs ...[]byte) restic.ID {
		var first restic.BlobHandle
		rtest.OK(t, repo.WithBlobUploader(ctx, func(ctx context.Context, uploader restic.BlobSaverWithAsync) error {
			for i, b := range bufs {
				// storeDuplicate: force a second copy of x
				id, _, _, err := uploader.SaveBlob(ctx, restic.DataBlob, b, restic.ID{}, true)
				rtest.OK(t, err)
				if i == 0 {
					first = restic.BlobHandle{Type: restic.DataBlob, ID: id}
				}
			}
			return nil
		}))
		_ = first
		return restic.ID{}
	}
	savePack(x, k, u1) // pack R
	savePack(x, u2) // pack M
	xh = restic.BlobHandle{Type: restic.DataBlob, ID: restic.Hash(x)}

	kh := restic.BlobHandle{Type: restic.DataBlob, ID: restic.Hash(k)}
	pbs := repo.LookupBlob(xh)
	rtest.Assert(t, len(pbs) == 2 && pbs[0].PackID() != pbs[1].PackID(), "test setup: want x in two packs, got %v", pbs)
	packR := repo.LookupBlob(kh)[0].PackID()
	missing := pbs[0].PackID()
	if missing == packR {
		missing = pbs[1].PackID()
	}
	rtest.OK(t, be.Remove(ctx, backend.Handle{Type: backend.PackFile, Name: missing.String()}))

	// x is still readable before the prune
	repo = repository.TestOpenBackend(t, be)
	rtest.OK(t, repo.LoadIndex(ctx, restic.NoopTerminalCounterFactory))

	opts := repository.PruneOptions{
		MaxRepackBytes: math.MaxUint64,
		MaxUnusedBytes: func(used uint64) (unused uint64) { return 0 },
	}
	plan, err := repository.PlanPrune(ctx, opts, repo, func(ctx context.Context, repo restic.Repository, usedBlobs restic.FindBlobSet) error {
		usedBlobs.Insert(xh)
		usedBlobs.Insert(kh)
		return nil
	}, restic.NewNoopPrinter())
	rtest.OK(t, err)
	err = plan.Execute(ctx, restic.NewNoopPrinter())
	t.Logf("prune: %v", err)

	repo = repository.TestOpenBackend(t, be)
	rtest.OK(t, repo.LoadIndex(ctx, restic.NoopTerminalCounterFactory))
	buf, err := repo.LoadBlob(ctx, xh, nil)
	if err != nil {
		t.Fatalf("used blob lost by prune: %v", err)
	}
	rtest.Assert(t, restic.Hash(buf) == xh.ID, "wrong content")
}
