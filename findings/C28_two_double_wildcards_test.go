package filter

// Replay for the C28 finding: a pattern with two '**' did not match when both (or
// the first one more than the loop bound allowed) had to match few components:
// the expansion of the first '**' left room for every other part of the pattern,
// including the second '**', as if each needed a path component of its own.

import "testing"

func TestFindingC28TwoDoubleWildcards(t *testing.T) {
	for _, c := range []struct {
		p, s string
		want bool
	}{
		{"/a/b/**/c/**/x", "/a/b/c/x", true},
		{"/a/b/**/c/**/x", "/a/b/q/c/x", true},
		{"/a/b/**/c/**/x", "/a/b/c/q/x", true},
		{"/a/b/**/c/**/x", "/a/b/q/c/r/x", true},
		{"/a/b/**/c/**/x", "/a/b/x", false},
		{"**/c/**/x", "c/x", true},
		{"a/**/**/x", "a/x", true},
		{"a/**/**/x", "a/b/c/d/x", true},
		{"a/**/**/x", "x", false},
	} {
		m, err := Match(c.p, c.s)
		if err != nil || m != c.want {
			t.Errorf("Match(%q, %q) = %v %v, want %v", c.p, c.s, m, err, c.want)
		}
	}
}
