//go:build !windows

package restorer

// Replay for the C18 finding: a snapshot tree that contains the same name twice -
// first as a symlink pointing outside the target, then as a regular file (a
// compromised host with repository access can write such a tree; nothing checks
// the ordering of a tree when it is read). The file content is written first
// (between the passes), the second pass then replaces it by the symlink and
// afterwards restores the FILE node's metadata on the same path: chmod and
// utimes follow the symlink and change a file outside the target directory.

import (
	"bytes"
	"context"
	"encoding/json"
	"os"
	"path/filepath"
	"testing"
	"time"

	"github.com/restic/restic/internal/data"
	"github.com/restic/restic/internal/repository"
	"github.com/restic/restic/internal/restic"
	rtest "github.com/restic/restic/internal/test"
)

func findingC18SaveRawTree(t testing.TB, ctx context.Context, saver restic.BlobSaver, nodes []*data.Node) restic.ID {
	var buf bytes.Buffer
	buf.WriteString(`{"nodes":[`)
	for i, n := range nodes {
		if i > 0 {
			buf.WriteByte(',')
		}
		b, err := json.Marshal(n)
		rtest.OK(t, err)
		buf.Write(b)
	}
	buf.WriteString("]}\n")
	id, _, _, err := saver.SaveBlob(ctx, restic.TreeBlob, buf.Bytes(), restic.ID{}, false)
	rtest.OK(t, err)
	return id
}

func TestFindingC18ChmodThroughDuplicateSymlink(t *testing.T) {
	repo := repository.TestRepository(t)
	base := rtest.TempDir(t)
	target := filepath.Join(base, "target")
	outside := filepath.Join(base, "outside")
	rtest.OK(t, os.Mkdir(outside, 0o700))
	victim := filepath.Join(outside, "victim")
	rtest.OK(t, os.WriteFile(victim, []byte("not part of the restore"), 0o600))
	old := time.Date(2001, 2, 3, 4, 5, 6, 0, time.UTC)
	rtest.OK(t, os.Chtimes(victim, old, old))

	ctx := t.Context()
	now := time.Now()
	uid, gid := uint32(os.Getuid()), uint32(os.Getgid())

	var treeID restic.ID
	rtest.OK(t, repo.WithBlobUploader(ctx, func(ctx context.Context, uploader restic.BlobSaverWithAsync) error {
		content := []byte("hello")
		blobID, _, _, err := uploader.SaveBlob(ctx, restic.DataBlob, content, restic.ID{}, false)
		rtest.OK(t, err)
		treeID = findingC18SaveRawTree(t, ctx, uploader, []*data.Node{
			{
				Name: "x", Type: data.NodeTypeSymlink, Mode: os.ModeSymlink | 0o777,
				LinkTarget: victim, ModTime: now, AccessTime: now, UID: uid, GID: gid, Links: 1,
			},
			{
				Name: "x", Type: data.NodeTypeFile, Mode: 0o666, Size: uint64(len(content)),
				Content: restic.IDs{blobID}, ModTime: now, AccessTime: now, UID: uid, GID: gid, Links: 1,
			},
		})
		return nil
	}))

	sn, err := data.NewSnapshot([]string{"test"}, nil, "", now)
	rtest.OK(t, err)
	sn.Tree = &treeID
	_, err = data.SaveSnapshot(ctx, repo, sn)
	rtest.OK(t, err)

	res := NewRestorer(repo, sn, Options{})
	_, err = res.RestoreTo(ctx, target)
	t.Logf("RestoreTo returned %v", err)

	fi, err := os.Stat(victim)
	rtest.OK(t, err)
	if fi.Mode().Perm() != 0o600 {
		t.Errorf("restore changed the mode of a file outside the target directory: %v, was 0600", fi.Mode().Perm())
	}
	if !fi.ModTime().Equal(old) {
		t.Errorf("restore changed the modification time of a file outside the target directory: %v, was %v", fi.ModTime(), old)
	}
	b, err := os.ReadFile(victim)
	rtest.OK(t, err)
	if string(b) != "not part of the restore" {
		t.Errorf("restore changed the content of a file outside the target directory: %q", b)
	}
}
