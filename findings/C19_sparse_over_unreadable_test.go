package restorer

// Demonstration of the C19 finding (not part of restic; injected with `go test
// -overlay`, see /verif/findings/run.sh; must run as a NON-root user because root
// can read a mode-000 file). restore --sparse --overwrite always over an existing
// file that cannot be opened for reading: the content check fails, so the file is
// restored "from scratch" in sparse mode; createFile keeps the existing file,
// ensureSize only truncates/extends it to the final size (old bytes survive), and
// the sparse writer then skips every all-zero block of the snapshot. Restore
// reports success and the file still holds the old bytes.

import (
	"bytes"
	"context"
	"os"
	"path/filepath"
	"testing"

	"github.com/restic/restic/internal/repository"
	rtest "github.com/restic/restic/internal/test"
)

func TestFindingC19SparseRestoreOverUnreadableFile(t *testing.T) {
	if os.Getuid() == 0 {
		t.Skip("must run as a non-root user (root can read a mode-000 file)")
	}
	repo := repository.TestRepository(t)
	const size = 1 << 20
	zeros := make([]byte, size)
	sn, _ := saveSnapshot(t, repo, Snapshot{
		Nodes: map[string]Node{
			"file": File{Data: string(zeros)},
		},
	}, noopGetGenericAttributes)

	target := t.TempDir()
	p := filepath.Join(target, "file")
	rtest.OK(t, os.WriteFile(p, bytes.Repeat([]byte{0xAA}, size), 0o600))
	rtest.OK(t, os.Chmod(p, 0o000))

	res := NewRestorer(repo, sn, Options{Sparse: true, Overwrite: OverwriteAlways})
	_, err := res.RestoreTo(context.Background(), target)
	rtest.OK(t, err)

	rtest.OK(t, os.Chmod(p, 0o600))
	got, err := os.ReadFile(p)
	rtest.OK(t, err)
	wrong := 0
	for _, b := range got {
		if b != 0 {
			wrong++
		}
	}
	if len(got) != size || wrong != 0 {
		t.Fatalf("FINDING C19: restore reported success but the file has %d bytes, %d of them differ from the snapshot content (all zeros)", len(got), wrong)
	}
}
