#!/bin/bash
# Replays the C24 finding against the real code in /repo (overlay test, nothing is
# written to /repo). FAIL = the defect is present (it was, before fix: c529ce755).
cd "$(dirname "$0")/.."; . ./env.sh
ov=$(mktemp /tmp/findings-ov-XXXX.json)
cat > $ov <<J
{"Replace": {"/repo/internal/data/zz_finding_c24_test.go": "/verif/findings/C24_empty_tag_list_two_groups_test.go"}}
J
cd /repo && go test -overlay $ov -vet=off -timeout 120s -count=1 -run 'TestFindingC24' ./internal/data/ 2>&1 | tail -8
rc=${PIPESTATUS[0]}
rm -f $ov
exit $rc
