package data

// Replay for the C22 finding: a keep-within duration of 2562048 hours or more
// (about 292 years; "keep everything that is not older than that") overflowed
// time.Duration when multiplied by time.Hour, the window start wrapped around into
// the future and ApplyPolicy removed EVERY snapshot instead of keeping all.

import (
	"testing"
	"time"
)

func TestFindingC22WithinHoursOverflow(t *testing.T) {
	now := time.Now()
	var list Snapshots
	for i := 0; i < 3; i++ {
		list = append(list, &Snapshot{Time: now.Add(-time.Duration(i+1) * 24 * time.Hour)})
	}
	for _, h := range []int{2562047, 2562048, 3000000, 5124095, 100000000} {
		keep, remove, _ := ApplyPolicy(list, ExpirePolicy{Within: Duration{Hours: h}})
		if len(keep) != 3 || len(remove) != 0 {
			t.Errorf("keep-within %dh: kept %d, removed %d of 3 snapshots that are a few days old", h, len(keep), len(remove))
		}
		keep, remove, _ = ApplyPolicy(list, ExpirePolicy{WithinDaily: Duration{Hours: h}})
		if len(keep) != 3 || len(remove) != 0 {
			t.Errorf("keep-within-daily %dh: kept %d, removed %d of 3 daily snapshots", h, len(keep), len(remove))
		}
	}
}
