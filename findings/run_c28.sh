#!/bin/bash
# Replays the C28 finding against the real code in /repo (overlay test, nothing is
# written to /repo). FAIL = the defect is present (it was, before fix: 3ad44d76a).
cd "$(dirname "$0")/.."; . ./env.sh
ov=$(mktemp /tmp/findings-ov-XXXX.json)
cat > $ov <<J
{"Replace": {"/repo/internal/filter/zz_finding_c28_test.go": "/verif/findings/C28_two_double_wildcards_test.go"}}
J
cd /repo && go test -overlay $ov -vet=off -timeout 120s -count=1 -run 'TestFindingC28' ./internal/filter/ 2>&1 | tail -8
rc=${PIPESTATUS[0]}
rm -f $ov
exit $rc
