#!/usr/bin/env python3
"""Must-fail corpus: apply each mutant to a scratch worktree of /repo (outside /repo
and /verif), run the property's check against it, expect a VIOLATION naming the
expected obligation; the scratch trees are removed afterwards.
usage: selftest/run.py [-j N] [PROP ...]      (N worktrees in parallel, default 1)"""
import json, os, subprocess, sys, shutil, tempfile, glob
from concurrent.futures import ThreadPoolExecutor
import threading, queue
V='/verif'
def sh(cmd, **kw): return subprocess.run(cmd, shell=True, capture_output=True, text=True, **kw)
args=sys.argv[1:]
J=1
if args[:1]==['-j']: J=int(args[1]); args=args[2:]
props=args
muts=[]
for f in sorted(glob.glob(V+'/selftest/C*.json')):
    for m in json.load(open(f)):
        if not props or m['prop'] in props: muts.append(m)
def mkwt():
    wt=tempfile.mkdtemp(prefix='govc-selftest-', dir='/tmp'); os.rmdir(wt)
    r=sh(f'git -C /repo worktree add --detach {wt} HEAD'); assert r.returncode==0, r.stderr
    # contracts that are not committed yet are part of the tree under test
    sh(f"cd /repo && git ls-files -m -o --exclude-standard | grep zz_verif_contracts | while read f; do cp $f {wt}/$f; done")
    return wt
lock=threading.Lock()
wts=queue.Queue()
allwts=[]
for _ in range(max(1,min(J,len(muts)))):
    w=mkwt(); wts.put(w); allwts.append(w)
ok=bad=0
def run(m):
    global ok,bad
    wt=wts.get()
    try:
        path=os.path.join(wt,m['file'])
        src=open(path).read()
        edits=m.get('edits') or [[m['old'],m['new']]]
        if any(o not in src for o,_ in edits):
            with lock: print(f"SKIP  {m['prop']} {m['name']}: pattern not found", flush=True); bad+=1
            return
        new=src
        for o,n in edits: new=new.replace(o,n,1)
        open(path,'w').write(new)
        try:
            b=sh(f". {V}/env.sh && cd {wt} && go build ./{os.path.dirname(m['file'])}/")
            if b.returncode!=0:
                with lock: print(f"SKIP  {m['prop']} {m['name']}: does not compile: {b.stderr[:200]}", flush=True); bad+=1
                return
            r=sh(f". {V}/env.sh && cd {V} && bin/govc check --repo {wt} --noevidence {m['prop']}")
            viol=[l for l in r.stdout.splitlines() if l.startswith('VIOLATION')]
            hit=[l for l in viol if m['expect'] in l]
            with lock:
                if m.get('harmless'):
                    if viol or r.returncode!=0: print(f"FALSE-ALARM {m['prop']} {m['name']}: {viol[:1]} rc={r.returncode}", flush=True); bad+=1
                    else: print(f"ok    {m['prop']} {m['name']} (harmless edit, no alarm)", flush=True); ok+=1
                elif hit: print(f"ok    {m['prop']} {m['name']}: {len(viol)} violation(s)", flush=True); ok+=1
                else:
                    print(f"MISSED {m['prop']} {m['name']}: rc={r.returncode} viol={[v[:160] for v in viol[:2]]}", flush=True); bad+=1
        finally:
            open(path,'w').write(src)
    finally:
        wts.put(wt)
try:
    with ThreadPoolExecutor(max_workers=max(1,J)) as ex:
        list(ex.map(run, muts))
finally:
    for wt in allwts:
        sh(f'git -C /repo worktree remove --force {wt}'); shutil.rmtree(wt, ignore_errors=True)
print(f"selftest: {ok} ok, {bad} not ok, of {len(muts)}")
sys.exit(0 if bad==0 else 1)
