#!/usr/bin/env python3
"""Must-fail corpus: apply each mutant to a scratch worktree of /repo (outside /repo
and /verif), run the property's check against it, expect a VIOLATION naming the
expected obligation; the scratch tree is removed afterwards.
usage: selftest/run.py [PROP ...]"""
import json, os, subprocess, sys, shutil, tempfile, glob
V='/verif'
env=dict(os.environ)
def sh(cmd, **kw): return subprocess.run(cmd, shell=True, capture_output=True, text=True, **kw)
props=sys.argv[1:]
muts=[]
for f in sorted(glob.glob(V+'/selftest/C*.json')):
    for m in json.load(open(f)):
        if not props or m['prop'] in props: muts.append(m)
wt=tempfile.mkdtemp(prefix='govc-selftest-', dir='/tmp')
os.rmdir(wt)
r=sh(f'git -C /repo worktree add --detach {wt} HEAD'); assert r.returncode==0, r.stderr
# contracts that are not committed yet are part of the tree under test
sh(f"cd /repo && git ls-files -m -o --exclude-standard | grep zz_verif_contracts | while read f; do cp $f {wt}/$f; done")
ok=bad=0
try:
    for m in muts:
        path=os.path.join(wt,m['file'])
        src=open(path).read()
        edits=m.get('edits') or [[m['old'],m['new']]]
        if any(o not in src for o,_ in edits):
            print(f"SKIP  {m['prop']} {m['name']}: pattern not found"); bad+=1; continue
        new=src
        for o,n in edits: new=new.replace(o,n,1)
        open(path,'w').write(new)
        b=sh(f". {V}/env.sh && cd {wt} && go build ./{os.path.dirname(m['file'])}/")
        if b.returncode!=0:
            print(f"SKIP  {m['prop']} {m['name']}: does not compile: {b.stderr[:200]}"); bad+=1
        else:
            r=sh(f". {V}/env.sh && cd {V} && bin/govc check --repo {wt} --noevidence {m['prop']}")
            viol=[l for l in r.stdout.splitlines() if l.startswith('VIOLATION')]
            hit=[l for l in viol if m['expect'] in l]
            if m.get('harmless'):
                if viol or r.returncode!=0: print(f"FALSE-ALARM {m['prop']} {m['name']}: {viol[:1]} rc={r.returncode}"); bad+=1
                else: print(f"ok    {m['prop']} {m['name']} (harmless edit, no alarm)"); ok+=1
            elif hit: print(f"ok    {m['prop']} {m['name']}: {len(viol)} violation(s)"); ok+=1
            else:
                print(f"MISSED {m['prop']} {m['name']}: rc={r.returncode} viol={[v[:160] for v in viol[:2]]}"); bad+=1
        open(path,'w').write(src)
finally:
    sh(f'git -C /repo worktree remove --force {wt}'); shutil.rmtree(wt, ignore_errors=True)
print(f"selftest: {ok} ok, {bad} not ok, of {len(muts)}")
sys.exit(0 if bad==0 else 1)
