# sourced by check / setup: offline Go environment with the toolchain /repo needs
export GO125=/root/go/pkg/mod/golang.org/toolchain@v0.0.1-go1.25.10.linux-amd64
export PATH=$GO125/bin:$PATH
export GOTOOLCHAIN=local GOFLAGS=-mod=mod GOPROXY=off GONOSUMDB=* GONOSUMCHECK=1 GOFLAGS=-mod=mod
export CARGO_NET_OFFLINE=true PIP_NO_INDEX=1
